#!/bin/bash
# confirm_mutant.sh <worktree> <mutant dir> : demo fails with the patch, passes without, suite passes with the patch
WT=$1; M=$2
cd $WT || exit 2
git checkout -q -- . ; git clean -fdq pumpkin-solver/tests/ 2>/dev/null
export CARGO_NET_OFFLINE=true
git apply $M/patch.diff || { echo "APPLY-FAILED"; exit 2; }
cp $M/demo.rs pumpkin-solver/tests/zz_demo.rs
cargo test --offline -p pumpkin-solver --test zz_demo > $M/confirm_with.log 2>&1; with=$?
cargo nextest run --workspace --no-fail-fast --tool-config-file pb:/w/lib/nextest.toml --profile pb --test-threads 4 --offline -E 'not binary(zz_demo)' > $M/confirm_suite.log 2>&1
suite=$(grep -E "Summary" $M/confirm_suite.log | tail -1)
git checkout -q -- .
cargo test --offline -p pumpkin-solver --test zz_demo > $M/confirm_without.log 2>&1; without=$?
rm -f pumpkin-solver/tests/zz_demo.rs
echo "RESULT $M with_patch_exit=$with without_patch_exit=$without suite: $suite"
