#!/bin/bash
# mutant_matrix.sh [tier] : every stored seeded change against its property's check (applies the change to /repo,
# runs the check, undoes it). Writes seeded/MATRIX.txt. /repo must be clean and nothing else may use it meanwhile.
cd "$(dirname "$0")/.."
T=${1:-quick}
OUT=seeded/MATRIX.txt
echo "# seeded change | property | tier=$T | exit | first violation classes (runs)   [$(date -u +%F) on /repo $(git -C /repo log --format=%h -1)]" > $OUT
if [ -n "$(git -C /repo status --short)" ]; then echo "/repo is not clean" >&2; exit 2; fi
for d in seeded/*/; do
  id=$(basename $d)
  [ -f $d/patch.diff ] || continue
  prop=$(python3 -c "import json;print(json.load(open('$d/meta.json'))['property'])")
  if ! git -C /repo apply --check $PWD/$d/patch.diff 2>/dev/null; then echo "$id | $prop | does-not-apply" >> $OUT; continue; fi
  git -C /repo apply $PWD/$d/patch.diff
  ./check $prop $T > /tmp/matrix.out 2>&1; code=$?
  git -C /repo checkout -- .
  classes=$(grep -E "^violation class" /tmp/matrix.out | sed 's/violation class //; s/;.*//' | sort -u | head -4 | tr '\n' ';')
  regress=$(grep -c "^VIOLATION.*known/fixed" /tmp/matrix.out)
  echo "$id | $prop | exit=$code | $classes regression-replays-failing=$regress" >> $OUT
done
./check C01 quick > /dev/null 2>&1   # leave the binaries built from the clean tree
echo done >> $OUT
