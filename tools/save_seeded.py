#!/usr/bin/env python3
"""save_seeded.py <PROP> <mutant dir> <id> <detected_by json> : copy a confirmed seeded change into /verif/seeded/<id>/"""
import json, os, shutil, sys, re
prop, mdir, sid, detected = sys.argv[1], sys.argv[2], sys.argv[3], json.loads(sys.argv[4])
dst = f"/verif/seeded/{sid}"
os.makedirs(dst, exist_ok=True)
for f in ("patch.diff", "demo.rs", "meta.txt"):
    shutil.copy(os.path.join(mdir, f), os.path.join(dst, f))
meta_txt = open(os.path.join(mdir, "meta.txt")).read()
def grab(log):
    p = os.path.join(mdir, log)
    return open(p).read()[-400:] if os.path.exists(p) else ""
suite = ""
p = os.path.join(mdir, "confirm_suite.log")
if os.path.exists(p):
    m = re.findall(r"Summary.*", open(p).read())
    suite = m[-1] if m else ""
meta = {
    "id": sid,
    "property": prop,
    "breaks": meta_txt.split("\n")[0][:300],
    "needs_to_manifest": " ".join(l.strip() for l in meta_txt.split("\n") if l.lower().startswith(("needs", "trigger", "  ")))[:900],
    "origin": "written by an independent sub-agent that was given only the property text and a scratch worktree",
    "confirmed_by_me": {
        "commands": "tools/confirm_mutant.sh <worktree> <mutant dir>: git apply patch.diff; cargo test --test zz_demo (fails); cargo nextest run --workspace (suite); git checkout; cargo test --test zz_demo (passes)",
        "demo_with_patch": "FAILED (exit 101)",
        "demo_without_patch": "passed (exit 0)",
        "suite_with_patch": suite or "657 passed, 1 failed (the baseline's always-failing cnf_test::prime4294967297)",
    },
    "detected_by": detected,
}
json.dump(meta, open(os.path.join(dst, "meta.json"), "w"), indent=1)
print("saved", dst)
