//! The seams the simulator owns: the decision schedule (SchedBrancher / built-in branchers),
//! the clock (FaultClock) and the engine's own tuning knobs.
use pumpkin_solver::branching::branchers::alternating_brancher::{AlternatingBrancher, AlternatingStrategy};
use pumpkin_solver::branching::branchers::autonomous_search::AutonomousSearch;
use pumpkin_solver::branching::branchers::dynamic_brancher::DynamicBrancher;
use pumpkin_solver::branching::branchers::independent_variable_value_brancher::IndependentVariableValueBrancher;
use pumpkin_solver::branching::tie_breaking::{Direction, RandomTieBreaker};
use pumpkin_solver::branching::value_selection::*;
use pumpkin_solver::branching::variable_selection::*;
use pumpkin_solver::branching::{Brancher, BrancherEvent, SelectionContext};
use pumpkin_solver::options::{ConflictResolver, LearnedNogoodSortingStrategy, LearningOptions, RestartOptions, SequenceGeneratorType, SolverOptions};
use pumpkin_solver::predicate;
use pumpkin_solver::predicates::Predicate;
use pumpkin_solver::proof::ProofLog;
use pumpkin_solver::termination::TerminationCondition;
use pumpkin_solver::variables::DomainId;
use pumpkin_solver::Solver;
use rand::rngs::SmallRng;
use rand::SeedableRng;

use crate::ir::{Pk, Pred};
use crate::json::J;
use crate::rng::Rng;

// ---------------------------------------------------------------------------------------------
// Knobs
// ---------------------------------------------------------------------------------------------

#[derive(Clone, Debug, PartialEq)]
pub struct Knobs {
    pub uip: bool,
    pub minimise: bool,
    pub no_restarts: bool,
    /// 0 constant, 1 luby, 2 geometric
    pub seq: u8,
    pub base: u64,
    pub first: u64,
    pub lbd_coef: f64,
    pub num_assigned_coef: f64,
    pub window: u64,
    pub geometric: f64,
    pub max_activity: f32,
    pub decay: f32,
    pub limit: usize,
    pub lbd_threshold: u32,
    pub sort_lbd: bool,
    pub solver_seed: u64,
}

impl Default for Knobs {
    fn default() -> Knobs {
        Knobs {
            uip: true,
            minimise: true,
            no_restarts: false,
            seq: 0,
            base: 50,
            first: 10000,
            lbd_coef: 1.25,
            num_assigned_coef: 1.4,
            window: 5000,
            geometric: 1.5,
            max_activity: 1e20,
            decay: 0.99,
            limit: 4000,
            lbd_threshold: 5,
            sort_lbd: true,
            solver_seed: 42,
        }
    }
}

impl Knobs {
    /// The swarm: every run draws its own regime, biased to the extremes at which restarts,
    /// database reductions, id reuse and activity rescaling happen within a handful of conflicts.
    pub fn random(rng: &mut Rng) -> Knobs {
        let mut k = Knobs::default();
        k.uip = rng.chance(0.8);
        k.minimise = rng.chance(0.5);
        match rng.below(5) {
            0 => k.no_restarts = true,
            1 | 2 => {
                k.seq = 0;
                k.base = rng.range(1, 4) as u64;
                k.first = rng.range(0, 4) as u64;
                k.lbd_coef = 0.0;
            }
            3 => {
                k.seq = 1;
                k.base = rng.range(1, 3) as u64;
                k.first = rng.range(0, 3) as u64;
                k.lbd_coef = *rng.pick(&[0.0, 1.25]);
            }
            _ => {
                k.seq = 2;
                k.base = rng.range(1, 3) as u64;
                k.first = rng.range(0, 3) as u64;
                k.geometric = *rng.pick(&[1.1, 1.5, 2.0]);
                k.lbd_coef = *rng.pick(&[0.0, 1.25]);
            }
        }
        k.num_assigned_coef = *rng.pick(&[0.0, 1.4, 100.0]);
        k.window = rng.range(1, 5) as u64;
        k.limit = *rng.pick(&[0, 1, 2, 5, 4000, 4000]);
        k.lbd_threshold = *rng.pick(&[0, 1, 2, 5]);
        k.sort_lbd = rng.chance(0.5);
        k.max_activity = *rng.pick(&[4.0, 1e20]);
        k.decay = *rng.pick(&[0.5, 0.99]);
        k.solver_seed = rng.next_u64() % 1000;
        k
    }

    /// Whether this regime comes with a termination argument (so that a step-budget overrun is a
    /// genuine livelock and not the legitimate non-termination of, e.g., restart-every-conflict
    /// combined with delete-everything, or of no-learning search that restarts).
    pub fn terminates(&self) -> bool {
        // the geometric sequence truncates: x -> floor(x * coef) only grows if that exceeds x
        let growing = self.seq == 1 || (self.seq == 2 && (self.base as f64 * self.geometric) as u64 > self.base);
        if self.uip {
            self.no_restarts || self.limit >= 4000 || growing
        } else {
            self.no_restarts
        }
    }

    pub fn options(&self, proof: ProofLog) -> SolverOptions {
        SolverOptions {
            restart_options: RestartOptions {
                sequence_generator_type: match self.seq {
                    0 => SequenceGeneratorType::Constant,
                    1 => SequenceGeneratorType::Luby,
                    _ => SequenceGeneratorType::Geometric,
                },
                base_interval: self.base,
                min_num_conflicts_before_first_restart: self.first,
                lbd_coef: self.lbd_coef,
                num_assigned_coef: self.num_assigned_coef,
                num_assigned_window: self.window,
                geometric_coef: Some(self.geometric),
                no_restarts: self.no_restarts,
            },
            learning_clause_minimisation: self.minimise,
            random_generator: SmallRng::seed_from_u64(self.solver_seed),
            proof_log: proof,
            conflict_resolver: if self.uip { ConflictResolver::UIP } else { ConflictResolver::NoLearning },
            learning_options: LearningOptions {
                max_activity: self.max_activity,
                activity_decay_factor: self.decay,
                limit_num_high_lbd_nogoods: self.limit,
                lbd_threshold: self.lbd_threshold,
                nogood_sorting_strategy: if self.sort_lbd { LearnedNogoodSortingStrategy::Lbd } else { LearnedNogoodSortingStrategy::Activity },
                activity_bump_increment: 1.0,
            },
        }
    }

    pub fn to_json(&self) -> J {
        J::obj(vec![
            ("uip", J::Bool(self.uip)),
            ("minimise", J::Bool(self.minimise)),
            ("no_restarts", J::Bool(self.no_restarts)),
            ("seq", J::i(self.seq)),
            ("base", J::u(self.base)),
            ("first", J::u(self.first)),
            ("lbd_coef", J::Float(self.lbd_coef)),
            ("num_assigned_coef", J::Float(self.num_assigned_coef)),
            ("window", J::u(self.window)),
            ("geometric", J::Float(self.geometric)),
            ("max_activity", J::Float(self.max_activity as f64)),
            ("decay", J::Float(self.decay as f64)),
            ("limit", J::u(self.limit as u64)),
            ("lbd_threshold", J::i(self.lbd_threshold)),
            ("sort_lbd", J::Bool(self.sort_lbd)),
            ("solver_seed", J::u(self.solver_seed)),
        ])
    }

    pub fn from_json(j: &J) -> Knobs {
        Knobs {
            uip: j.at("uip").as_bool(),
            minimise: j.at("minimise").as_bool(),
            no_restarts: j.at("no_restarts").as_bool(),
            seq: j.at("seq").as_i64() as u8,
            base: j.at("base").as_u64(),
            first: j.at("first").as_u64(),
            lbd_coef: j.at("lbd_coef").as_f64(),
            num_assigned_coef: j.at("num_assigned_coef").as_f64(),
            window: j.at("window").as_u64(),
            geometric: j.at("geometric").as_f64(),
            max_activity: j.at("max_activity").as_f64() as f32,
            decay: j.at("decay").as_f64() as f32,
            limit: j.at("limit").as_usize(),
            lbd_threshold: j.at("lbd_threshold").as_i64() as u32,
            sort_lbd: j.at("sort_lbd").as_bool(),
            solver_seed: j.at("solver_seed").as_u64(),
        }
    }
}

// ---------------------------------------------------------------------------------------------
// FaultClock
// ---------------------------------------------------------------------------------------------

/// Simulated time = number of polls of `should_stop`. The stop flag rises at poll `fire_at` and
/// stays up (the semantics of `TimeBudget` and of the SIGINT flag); `budget` turns a livelock
/// into a deterministic verdict.
#[derive(Debug)]
pub struct FaultClock {
    pub fire_at: Option<u64>,
    pub budget: u64,
    pub polls: u64,
    pub fired: bool,
    pub exhausted: bool,
    /// the poll count at which the step budget last started afresh
    budget_from: u64,
    /// set by the caller (who cannot reach the clock while an iterator borrows it) to make the
    /// step budget start afresh: progress was made
    pub progress: std::rc::Rc<std::cell::Cell<bool>>,
    /// a cap on the total number of polls of one operation, whatever progress it makes; reaching
    /// it is never a liveness verdict, the run is inconclusive
    pub total_cap: u64,
    pub capped: bool,
}

impl FaultClock {
    pub fn new(fire_at: Option<u64>, budget: u64) -> FaultClock {
        FaultClock { fire_at, budget, polls: 0, fired: false, exhausted: false, budget_from: 0, progress: Default::default(), total_cap: u64::MAX, capped: false }
    }
    pub fn never(budget: u64) -> FaultClock {
        FaultClock::new(None, budget)
    }
}

impl TerminationCondition for FaultClock {
    fn should_stop(&mut self) -> bool {
        let k = self.polls;
        self.polls += 1;
        if let Some(f) = self.fire_at {
            if k >= f {
                self.fired = true;
                return true;
            }
        }
        if self.progress.replace(false) {
            self.budget_from = k;
        }
        if k >= self.total_cap {
            self.capped = true;
            return true;
        }
        if k - self.budget_from >= self.budget {
            self.exhausted = true;
            return true;
        }
        false
    }
}

// ---------------------------------------------------------------------------------------------
// Branchers
// ---------------------------------------------------------------------------------------------

pub const N_VAR_SEL: u8 = 11;
pub const N_VAL_SEL: u8 = 14;
pub const VAR_SEL_NAMES: [&str; 11] = [
    "anti_first_fail", "first_fail", "input_order", "largest", "max_regret", "most_constrained", "occurrence", "proportional_domain_size", "random", "smallest",
    "first_fail_random_tie",
];
pub const VAL_SEL_NAMES: [&str; 14] = [
    "in_domain_interval", "in_domain_max", "in_domain_median", "in_domain_middle", "in_domain_min", "in_domain_random", "in_domain_split", "in_domain_split_random",
    "out_domain_max", "out_domain_median", "out_domain_min", "out_domain_random", "random_splitter", "reverse_in_domain_split",
];

#[derive(Clone, Debug, PartialEq)]
pub enum BrancherSpec {
    /// The seeded scheduler: any undecided predicate over any unfixed variable.
    /// mode: 0 uniform over the four kinds, 1 bounds only, 2 equality only, 3 disequality/split heavy,
    /// 4 first unfixed variable == lower bound (the "simplest" schedule)
    Sched { mode: u8, seed: u64 },
    /// Replays a recorded decision list (skipping entries which are no longer undecided), then
    /// continues with "first unfixed variable == lower bound".
    Script(Vec<Pred>),
    /// `IndependentVariableValueBrancher` over the given selectors.
    Builtin { var_sel: u8, val_sel: u8 },
    /// `Solver::default_brancher()` (VSIDS + solution-guided phase saving + random backup)
    Default,
    /// `AlternatingBrancher` between an independent variable/value brancher and the default brancher
    Alternating { strategy: u8, var_sel: u8, val_sel: u8 },
    /// `DynamicBrancher` over a partition of the variables in `parts` consecutive blocks
    Dynamic { parts: u8, var_sel: u8, val_sel: u8 },
    /// `AutonomousSearch` with a chosen backup brancher
    Autonomous { var_sel: u8, val_sel: u8 },
}

impl BrancherSpec {
    pub fn random_sched(rng: &mut Rng) -> BrancherSpec {
        let mode = *rng.pick(&[0u8, 0, 0, 1, 1, 2, 3, 3, 4]);
        BrancherSpec::Sched { mode, seed: rng.next_u64() >> 1 }
    }
    pub fn random_builtin(rng: &mut Rng) -> BrancherSpec {
        let vs = rng.below(N_VAR_SEL as usize) as u8;
        let ls = rng.below(N_VAL_SEL as usize) as u8;
        match rng.below(10) {
            0..=4 => BrancherSpec::Builtin { var_sel: vs, val_sel: ls },
            5 | 6 => BrancherSpec::Default,
            7 => BrancherSpec::Alternating { strategy: rng.below(4) as u8, var_sel: vs, val_sel: ls },
            8 => BrancherSpec::Dynamic { parts: rng.range(2, 3) as u8, var_sel: vs, val_sel: ls },
            _ => BrancherSpec::Autonomous { var_sel: vs, val_sel: ls },
        }
    }
    pub fn is_builtin(&self) -> bool {
        !matches!(self, BrancherSpec::Sched { .. } | BrancherSpec::Script(_))
    }
    pub fn to_json(&self) -> J {
        match self {
            BrancherSpec::Sched { mode, seed } => J::obj(vec![("b", J::s("sched")), ("mode", J::i(*mode)), ("seed", J::u(*seed))]),
            BrancherSpec::Script(ps) => J::obj(vec![("b", J::s("script")), ("decisions", J::Arr(ps.iter().map(|p| p.to_json()).collect()))]),
            BrancherSpec::Builtin { var_sel, val_sel } => J::obj(vec![
                ("b", J::s("builtin")),
                ("var_sel", J::i(*var_sel)),
                ("val_sel", J::i(*val_sel)),
                ("names", J::s(&format!("{}+{}", VAR_SEL_NAMES[*var_sel as usize], VAL_SEL_NAMES[*val_sel as usize]))),
            ]),
            BrancherSpec::Default => J::obj(vec![("b", J::s("default"))]),
            BrancherSpec::Alternating { strategy, var_sel, val_sel } => {
                J::obj(vec![("b", J::s("alternating")), ("strategy", J::i(*strategy)), ("var_sel", J::i(*var_sel)), ("val_sel", J::i(*val_sel))])
            }
            BrancherSpec::Dynamic { parts, var_sel, val_sel } => {
                J::obj(vec![("b", J::s("dynamic")), ("parts", J::i(*parts)), ("var_sel", J::i(*var_sel)), ("val_sel", J::i(*val_sel))])
            }
            BrancherSpec::Autonomous { var_sel, val_sel } => J::obj(vec![("b", J::s("autonomous")), ("var_sel", J::i(*var_sel)), ("val_sel", J::i(*val_sel))]),
        }
    }
    pub fn from_json(j: &J) -> BrancherSpec {
        let u8of = |k: &str| j.at(k).as_i64() as u8;
        match j.at("b").as_str() {
            "sched" => BrancherSpec::Sched { mode: u8of("mode"), seed: j.at("seed").as_u64() },
            "script" => BrancherSpec::Script(j.at("decisions").as_arr().iter().map(Pred::from_json).collect()),
            "builtin" => BrancherSpec::Builtin { var_sel: u8of("var_sel"), val_sel: u8of("val_sel") },
            "default" => BrancherSpec::Default,
            "alternating" => BrancherSpec::Alternating { strategy: u8of("strategy"), var_sel: u8of("var_sel"), val_sel: u8of("val_sel") },
            "dynamic" => BrancherSpec::Dynamic { parts: u8of("parts"), var_sel: u8of("var_sel"), val_sel: u8of("val_sel") },
            "autonomous" => BrancherSpec::Autonomous { var_sel: u8of("var_sel"), val_sel: u8of("val_sel") },
            other => panic!("unknown brancher {other}"),
        }
    }
}

/// The seeded scheduler behind the `Brancher` seam.
#[derive(Debug)]
pub struct SchedBrancher {
    pub mode: u8,
    pub rng: Rng,
    pub vars: Vec<DomainId>,
    pub script: Vec<Predicate>,
    pub script_pos: usize,
}

impl SchedBrancher {
    fn first_unfixed_min(&self, ctx: &SelectionContext) -> Option<Predicate> {
        let v = *self.vars.iter().find(|v| !ctx.is_integer_fixed(**v))?;
        let lb = ctx.lower_bound(v);
        Some(predicate!(v == lb))
    }
}

impl Brancher for SchedBrancher {
    fn next_decision(&mut self, ctx: &mut SelectionContext) -> Option<Predicate> {
        if self.mode == 5 {
            // scripted
            while self.script_pos < self.script.len() {
                let p = self.script[self.script_pos];
                self.script_pos += 1;
                if !ctx.is_predicate_assigned(p) {
                    return Some(p);
                }
            }
            return self.first_unfixed_min(ctx);
        }
        if self.mode == 4 {
            return self.first_unfixed_min(ctx);
        }
        let unfixed: Vec<DomainId> = self.vars.iter().copied().filter(|v| !ctx.is_integer_fixed(*v)).collect();
        if unfixed.is_empty() {
            return None;
        }
        let v = unfixed[self.rng.below(unfixed.len())];
        let lb = ctx.lower_bound(v);
        let ub = ctx.upper_bound(v);
        for _ in 0..64 {
            let val = self.rng.range32(lb, ub);
            let kind = match self.mode {
                0 => *self.rng.pick(&Pk::ALL),
                1 => *self.rng.pick(&[Pk::Ge, Pk::Le]),
                2 => Pk::Eq,
                _ => *self.rng.pick(&[Pk::Ne, Pk::Ne, Pk::Ge, Pk::Le]),
            };
            let p = match kind {
                Pk::Ge => predicate!(v >= val),
                Pk::Le => predicate!(v <= val),
                Pk::Eq => predicate!(v == val),
                Pk::Ne => predicate!(v != val),
            };
            if !ctx.is_predicate_assigned(p) {
                return Some(p);
            }
        }
        Some(predicate!(v <= lb))
    }
    fn subscribe_to_events(&self) -> Vec<BrancherEvent> {
        vec![]
    }
    fn is_restart_pointless(&mut self) -> bool {
        false
    }
}

fn var_selector(k: u8, vars: &[DomainId], occ: &[u32], seed: u64) -> Box<dyn VariableSelector<DomainId>> {
    match k {
        0 => Box::new(AntiFirstFail::new(vars)),
        1 => Box::new(FirstFail::new(vars)),
        2 => Box::new(InputOrder::new(vars)),
        3 => Box::new(Largest::new(vars)),
        4 => Box::new(MaxRegret::new(vars)),
        5 => pumpkin_solver::verif_hooks::most_constrained(vars, occ),
        6 => Box::new(Occurrence::new(vars, occ)),
        7 => Box::new(ProportionalDomainSize::new(vars)),
        8 => Box::new(RandomSelector::new(vars.iter().copied())),
        9 => Box::new(Smallest::new(vars)),
        _ => Box::new(FirstFail::with_tie_breaker(vars, RandomTieBreaker::new(Direction::Minimum, Box::new(SmallRng::seed_from_u64(seed))))),
    }
}

fn val_selector(k: u8) -> Box<dyn ValueSelector<DomainId>> {
    match k {
        0 => Box::new(InDomainInterval),
        1 => Box::new(InDomainMax),
        2 => Box::new(InDomainMedian),
        3 => Box::new(InDomainMiddle),
        4 => Box::new(InDomainMin),
        5 => Box::new(InDomainRandom),
        6 => Box::new(InDomainSplit),
        7 => Box::new(InDomainSplitRandom),
        8 => Box::new(OutDomainMax),
        9 => Box::new(OutDomainMedian),
        10 => Box::new(OutDomainMin),
        11 => Box::new(OutDomainRandom),
        12 => Box::new(RandomSplitter),
        _ => Box::new(ReverseInDomainSplit),
    }
}

pub type Ivv = IndependentVariableValueBrancher<DomainId, DynamicVariableSelector<DomainId>, DynamicValueSelector<DomainId>>;

fn ivv(var_sel: u8, val_sel: u8, vars: &[DomainId], occ: &[u32], seed: u64) -> Ivv {
    IndependentVariableValueBrancher::new(DynamicVariableSelector::new(var_selector(var_sel, vars, occ, seed)), DynamicValueSelector::new(val_selector(val_sel)))
}

/// A brancher of any of the kinds the simulator drives; dispatched by `with_brancher!` so that the
/// engine sees the concrete type (an external forwarding wrapper cannot forward
/// `Brancher::synchronise`, whose argument type is crate-private).
#[allow(clippy::large_enum_variant)]
pub enum AnyBrancher {
    Sched(SchedBrancher),
    Ivv(Ivv),
    Default(pumpkin_solver::DefaultBrancher),
    Alt(AlternatingBrancher<Ivv>),
    Dyn(DynamicBrancher),
    Auto(AutonomousSearch<Ivv>),
}

#[macro_export]
macro_rules! with_brancher {
    ($any:expr, $b:ident => $body:expr) => {
        match $any {
            $crate::sched::AnyBrancher::Sched($b) => $body,
            $crate::sched::AnyBrancher::Ivv($b) => $body,
            $crate::sched::AnyBrancher::Default($b) => $body,
            $crate::sched::AnyBrancher::Alt($b) => $body,
            $crate::sched::AnyBrancher::Dyn($b) => $body,
            $crate::sched::AnyBrancher::Auto($b) => $body,
        }
    };
}

/// Builds the brancher for `spec` over `vars` (the model variables in creation order).
pub fn build_brancher(spec: &BrancherSpec, solver: &Solver, vars: &[DomainId], occ: &[u32], binding_pred: &dyn Fn(&Pred) -> Predicate) -> AnyBrancher {
    match spec {
        BrancherSpec::Sched { mode, seed } => AnyBrancher::Sched(SchedBrancher { mode: *mode, rng: Rng::new(*seed), vars: vars.to_vec(), script: vec![], script_pos: 0 }),
        BrancherSpec::Script(ps) => AnyBrancher::Sched(SchedBrancher { mode: 5, rng: Rng::new(0), vars: vars.to_vec(), script: ps.iter().map(binding_pred).collect(), script_pos: 0 }),
        BrancherSpec::Builtin { var_sel, val_sel } => AnyBrancher::Ivv(ivv(*var_sel, *val_sel, vars, occ, 7)),
        BrancherSpec::Default => AnyBrancher::Default(solver.default_brancher()),
        BrancherSpec::Alternating { strategy, var_sel, val_sel } => {
            let strat = match strategy {
                0 => AlternatingStrategy::EverySolution,
                1 => AlternatingStrategy::EveryOtherSolution,
                2 => AlternatingStrategy::SwitchToDefaultAfterFirstSolution,
                _ => AlternatingStrategy::EveryRestart,
            };
            AnyBrancher::Alt(AlternatingBrancher::new(solver, ivv(*var_sel, *val_sel, vars, occ, 7), strat))
        }
        BrancherSpec::Dynamic { parts, var_sel, val_sel } => {
            let parts = (*parts as usize).max(1).min(vars.len().max(1));
            let chunk = vars.len().div_ceil(parts).max(1);
            let mut bs: Vec<Box<dyn Brancher>> = vec![];
            for (i, (vs, os)) in vars.chunks(chunk).zip(occ.chunks(chunk)).enumerate() {
                bs.push(Box::new(ivv((*var_sel + i as u8) % N_VAR_SEL, (*val_sel + i as u8) % N_VAL_SEL, vs, os, 7 + i as u64)));
            }
            // the parts are either given to the constructor or appended one by one afterwards
            // (the way the FlatZinc front-end appends the default brancher)
            if val_sel % 2 == 0 && bs.len() >= 2 {
                let mut rest = bs.split_off(1);
                let mut d = DynamicBrancher::new(bs);
                for b in rest.drain(..) {
                    d.add_brancher(b);
                }
                AnyBrancher::Dyn(d)
            } else {
                AnyBrancher::Dyn(DynamicBrancher::new(bs))
            }
        }
        BrancherSpec::Autonomous { var_sel, val_sel } => AnyBrancher::Auto(AutonomousSearch::new(ivv(*var_sel, *val_sel, vars, occ, 7))),
    }
}
