//! The only source of randomness of the simulator: a SplitMix64 stream derived from VERIF_SEED.

#[derive(Clone, Debug)]
pub struct Rng {
    s: u64,
}

pub fn splitmix(mut z: u64) -> u64 {
    z = z.wrapping_add(0x9E37_79B9_7F4A_7C15);
    z = (z ^ (z >> 30)).wrapping_mul(0xBF58_476D_1CE4_E5B9);
    z = (z ^ (z >> 27)).wrapping_mul(0x94D0_49BB_1331_11EB);
    z ^ (z >> 31)
}

/// Derives a seed from a list of components (base seed, property, tier, run index, ...).
pub fn mix(parts: &[u64]) -> u64 {
    let mut h = 0x243F_6A88_85A3_08D3u64;
    for p in parts {
        h = splitmix(h ^ *p);
    }
    h
}

pub fn str_id(s: &str) -> u64 {
    fnv(s.as_bytes())
}

pub fn fnv(bytes: &[u8]) -> u64 {
    let mut h = 0xcbf2_9ce4_8422_2325u64;
    for b in bytes {
        h ^= *b as u64;
        h = h.wrapping_mul(0x0000_0100_0000_01b3);
    }
    h
}

impl Rng {
    pub fn new(seed: u64) -> Rng {
        Rng { s: seed }
    }
    pub fn next_u64(&mut self) -> u64 {
        self.s = self.s.wrapping_add(0x9E37_79B9_7F4A_7C15);
        let mut z = self.s;
        z = (z ^ (z >> 30)).wrapping_mul(0xBF58_476D_1CE4_E5B9);
        z = (z ^ (z >> 27)).wrapping_mul(0x94D0_49BB_1331_11EB);
        z ^ (z >> 31)
    }
    /// Uniform in 0..n (n > 0).
    pub fn below(&mut self, n: usize) -> usize {
        debug_assert!(n > 0);
        (self.next_u64() % n as u64) as usize
    }
    /// Uniform in lo..=hi.
    pub fn range(&mut self, lo: i64, hi: i64) -> i64 {
        debug_assert!(lo <= hi);
        let span = (hi - lo) as u64 + 1;
        lo + (self.next_u64() % span) as i64
    }
    pub fn range32(&mut self, lo: i32, hi: i32) -> i32 {
        self.range(lo as i64, hi as i64) as i32
    }
    pub fn chance(&mut self, p: f64) -> bool {
        ((self.next_u64() >> 11) as f64 / (1u64 << 53) as f64) < p
    }
    pub fn pick<'a, T>(&mut self, xs: &'a [T]) -> &'a T {
        &xs[self.below(xs.len())]
    }
    pub fn fork(&mut self) -> Rng {
        Rng::new(self.next_u64())
    }
}
