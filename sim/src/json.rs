//! Minimal JSON value, writer and parser (std only, so nothing needs to be fetched).
use std::fmt::Write;

#[derive(Clone, Debug, PartialEq)]
pub enum J {
    Null,
    Bool(bool),
    Int(i64),
    Float(f64),
    Str(String),
    Arr(Vec<J>),
    Obj(Vec<(String, J)>),
}

impl J {
    pub fn obj(pairs: Vec<(&str, J)>) -> J {
        J::Obj(pairs.into_iter().map(|(k, v)| (k.to_string(), v)).collect())
    }
    pub fn s(x: &str) -> J {
        J::Str(x.to_string())
    }
    pub fn i<T: Into<i64>>(x: T) -> J {
        J::Int(x.into())
    }
    pub fn u(x: u64) -> J {
        // u64 values (seeds, hashes) are stored as strings when they do not fit
        if x <= i64::MAX as u64 {
            J::Int(x as i64)
        } else {
            J::Str(format!("u{x}"))
        }
    }
    pub fn arr<T, F: Fn(&T) -> J>(xs: &[T], f: F) -> J {
        J::Arr(xs.iter().map(f).collect())
    }
    pub fn ints(xs: &[i32]) -> J {
        J::Arr(xs.iter().map(|x| J::Int(*x as i64)).collect())
    }
    pub fn get(&self, key: &str) -> Option<&J> {
        match self {
            J::Obj(ps) => ps.iter().find(|(k, _)| k == key).map(|(_, v)| v),
            _ => None,
        }
    }
    pub fn at(&self, key: &str) -> &J {
        self.get(key).unwrap_or_else(|| panic!("json: missing key {key}"))
    }
    pub fn as_i64(&self) -> i64 {
        match self {
            J::Int(i) => *i,
            J::Float(f) => *f as i64,
            J::Bool(b) => *b as i64,
            _ => panic!("json: expected int, got {self:?}"),
        }
    }
    pub fn as_u64(&self) -> u64 {
        match self {
            J::Int(i) => *i as u64,
            J::Str(s) if s.starts_with('u') => s[1..].parse().expect("u64"),
            _ => panic!("json: expected u64, got {self:?}"),
        }
    }
    pub fn as_i32(&self) -> i32 {
        self.as_i64() as i32
    }
    pub fn as_usize(&self) -> usize {
        self.as_i64() as usize
    }
    pub fn as_f64(&self) -> f64 {
        match self {
            J::Int(i) => *i as f64,
            J::Float(f) => *f,
            _ => panic!("json: expected number"),
        }
    }
    pub fn as_bool(&self) -> bool {
        match self {
            J::Bool(b) => *b,
            _ => panic!("json: expected bool, got {self:?}"),
        }
    }
    pub fn as_str(&self) -> &str {
        match self {
            J::Str(s) => s,
            _ => panic!("json: expected string, got {self:?}"),
        }
    }
    pub fn as_arr(&self) -> &[J] {
        match self {
            J::Arr(a) => a,
            _ => panic!("json: expected array, got {self:?}"),
        }
    }
    pub fn as_ints(&self) -> Vec<i32> {
        self.as_arr().iter().map(|j| j.as_i32()).collect()
    }
    pub fn is_null(&self) -> bool {
        matches!(self, J::Null)
    }

    pub fn write(&self, out: &mut String) {
        match self {
            J::Null => out.push_str("null"),
            J::Bool(b) => out.push_str(if *b { "true" } else { "false" }),
            J::Int(i) => {
                let _ = write!(out, "{i}");
            }
            J::Float(f) => {
                if f.is_finite() {
                    let _ = write!(out, "{f:?}");
                } else {
                    out.push_str("null");
                }
            }
            J::Str(s) => write_str(s, out),
            J::Arr(a) => {
                out.push('[');
                for (i, x) in a.iter().enumerate() {
                    if i > 0 {
                        out.push(',');
                    }
                    x.write(out);
                }
                out.push(']');
            }
            J::Obj(ps) => {
                out.push('{');
                for (i, (k, v)) in ps.iter().enumerate() {
                    if i > 0 {
                        out.push(',');
                    }
                    write_str(k, out);
                    out.push(':');
                    v.write(out);
                }
                out.push('}');
            }
        }
    }
    pub fn to_string(&self) -> String {
        let mut s = String::new();
        self.write(&mut s);
        s
    }
    /// Pretty printer (2-space indentation) for files a human reads.
    pub fn pretty(&self) -> String {
        let mut s = String::new();
        self.pretty_into(&mut s, 0);
        s.push('\n');
        s
    }
    fn pretty_into(&self, out: &mut String, ind: usize) {
        match self {
            J::Arr(a) if !a.is_empty() && a.iter().any(|x| matches!(x, J::Arr(_) | J::Obj(_))) => {
                out.push_str("[\n");
                for (i, x) in a.iter().enumerate() {
                    out.push_str(&" ".repeat(ind + 2));
                    x.pretty_into(out, ind + 2);
                    if i + 1 < a.len() {
                        out.push(',');
                    }
                    out.push('\n');
                }
                out.push_str(&" ".repeat(ind));
                out.push(']');
            }
            J::Obj(ps) if !ps.is_empty() => {
                out.push_str("{\n");
                for (i, (k, v)) in ps.iter().enumerate() {
                    out.push_str(&" ".repeat(ind + 2));
                    write_str(k, out);
                    out.push_str(": ");
                    v.pretty_into(out, ind + 2);
                    if i + 1 < ps.len() {
                        out.push(',');
                    }
                    out.push('\n');
                }
                out.push_str(&" ".repeat(ind));
                out.push('}');
            }
            _ => self.write(out),
        }
    }

    pub fn parse(text: &str) -> Result<J, String> {
        let mut p = Parser { b: text.as_bytes(), i: 0 };
        p.ws();
        let v = p.value()?;
        p.ws();
        if p.i != p.b.len() {
            return Err(format!("json: trailing data at {}", p.i));
        }
        Ok(v)
    }
}

fn write_str(s: &str, out: &mut String) {
    out.push('"');
    for c in s.chars() {
        match c {
            '"' => out.push_str("\\\""),
            '\\' => out.push_str("\\\\"),
            '\n' => out.push_str("\\n"),
            '\r' => out.push_str("\\r"),
            '\t' => out.push_str("\\t"),
            c if (c as u32) < 0x20 => {
                let _ = write!(out, "\\u{:04x}", c as u32);
            }
            c => out.push(c),
        }
    }
    out.push('"');
}

struct Parser<'a> {
    b: &'a [u8],
    i: usize,
}

impl Parser<'_> {
    fn ws(&mut self) {
        while self.i < self.b.len() && (self.b[self.i] as char).is_ascii_whitespace() {
            self.i += 1;
        }
    }
    fn value(&mut self) -> Result<J, String> {
        if self.i >= self.b.len() {
            return Err("json: unexpected end".into());
        }
        match self.b[self.i] {
            b'n' => self.lit("null", J::Null),
            b't' => self.lit("true", J::Bool(true)),
            b'f' => self.lit("false", J::Bool(false)),
            b'"' => Ok(J::Str(self.string()?)),
            b'[' => {
                self.i += 1;
                let mut v = vec![];
                self.ws();
                if self.b.get(self.i) == Some(&b']') {
                    self.i += 1;
                    return Ok(J::Arr(v));
                }
                loop {
                    self.ws();
                    v.push(self.value()?);
                    self.ws();
                    match self.b.get(self.i) {
                        Some(b',') => self.i += 1,
                        Some(b']') => {
                            self.i += 1;
                            return Ok(J::Arr(v));
                        }
                        _ => return Err(format!("json: expected , or ] at {}", self.i)),
                    }
                }
            }
            b'{' => {
                self.i += 1;
                let mut v = vec![];
                self.ws();
                if self.b.get(self.i) == Some(&b'}') {
                    self.i += 1;
                    return Ok(J::Obj(v));
                }
                loop {
                    self.ws();
                    let k = self.string()?;
                    self.ws();
                    if self.b.get(self.i) != Some(&b':') {
                        return Err(format!("json: expected : at {}", self.i));
                    }
                    self.i += 1;
                    self.ws();
                    let val = self.value()?;
                    v.push((k, val));
                    self.ws();
                    match self.b.get(self.i) {
                        Some(b',') => self.i += 1,
                        Some(b'}') => {
                            self.i += 1;
                            return Ok(J::Obj(v));
                        }
                        _ => return Err(format!("json: expected , or }} at {}", self.i)),
                    }
                }
            }
            _ => {
                let start = self.i;
                while self.i < self.b.len()
                    && matches!(self.b[self.i], b'-' | b'+' | b'.' | b'e' | b'E' | b'0'..=b'9')
                {
                    self.i += 1;
                }
                let t = std::str::from_utf8(&self.b[start..self.i]).unwrap();
                if let Ok(i) = t.parse::<i64>() {
                    Ok(J::Int(i))
                } else {
                    t.parse::<f64>().map(J::Float).map_err(|_| format!("json: bad number {t:?} at {start}"))
                }
            }
        }
    }
    fn lit(&mut self, word: &str, v: J) -> Result<J, String> {
        if self.b[self.i..].starts_with(word.as_bytes()) {
            self.i += word.len();
            Ok(v)
        } else {
            Err(format!("json: bad literal at {}", self.i))
        }
    }
    fn string(&mut self) -> Result<String, String> {
        if self.b.get(self.i) != Some(&b'"') {
            return Err(format!("json: expected string at {}", self.i));
        }
        self.i += 1;
        let mut out = Vec::new();
        loop {
            let Some(&c) = self.b.get(self.i) else { return Err("json: unterminated string".into()) };
            self.i += 1;
            match c {
                b'"' => break,
                b'\\' => {
                    let e = self.b[self.i];
                    self.i += 1;
                    match e {
                        b'n' => out.push(b'\n'),
                        b'r' => out.push(b'\r'),
                        b't' => out.push(b'\t'),
                        b'u' => {
                            let h = std::str::from_utf8(&self.b[self.i..self.i + 4]).unwrap();
                            let cp = u32::from_str_radix(h, 16).map_err(|e| e.to_string())?;
                            self.i += 4;
                            let ch = char::from_u32(cp).unwrap_or('?');
                            let mut buf = [0u8; 4];
                            out.extend_from_slice(ch.encode_utf8(&mut buf).as_bytes());
                        }
                        other => out.push(other),
                    }
                }
                c => out.push(c),
            }
        }
        String::from_utf8(out).map_err(|e| e.to_string())
    }
}
