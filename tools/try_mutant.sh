#!/bin/bash
# try_mutant.sh <patch.diff> <PROP> [tier] : apply the change to /repo, run the property's check, undo it
P=$1; PROP=$2; TIER=${3:-quick}
cd /repo && git apply "$P" || { echo "APPLY-FAILED $P"; exit 2; }
cd /verif && ./check $PROP $TIER > /tmp/try_mutant.out 2>&1; code=$?
git -C /repo checkout -- .
echo "MUTANT $P property=$PROP tier=$TIER exit=$code"
grep -E "^violation class|^VIOLATION|^  " /tmp/try_mutant.out | head -8
