//! K3 (C06): library runs with DRCP proof logging; the proof and literal-definition files are the
//! recorded history, checked afterwards by an independent checker (own line parser, semantic
//! check of every inference against the single tagged constraint, domain-aware reverse unit
//! propagation for every nogood).
use std::cell::RefCell;
use std::collections::{BTreeMap, HashMap};
use std::sync::atomic::{AtomicU64, Ordering};

use pumpkin_solver::optimisation::linear_sat_unsat::LinearSatUnsat;
use pumpkin_solver::optimisation::linear_unsat_sat::LinearUnsatSat;
use pumpkin_solver::optimisation::OptimisationDirection;
use pumpkin_solver::proof::{Format, ProofLog};
use pumpkin_solver::results::{OptimisationResult, SatisfactionResult, Solution, SolutionReference};
use pumpkin_solver::Solver;

use crate::adapter::{self, Binding};
use crate::exec::{Case, Op, Outcome, Stats, Violation};
use crate::ir::{assignments_over, Con, RefModel, VarDecl, View};
use crate::json::J;
use crate::sched::{build_brancher, FaultClock};
use crate::with_brancher;

#[derive(Clone, Debug, PartialEq)]
pub struct ProofCase {
    pub case: Case,
    pub inferences: bool,
    pub hints: bool,
}

static COUNTER: AtomicU64 = AtomicU64::new(0);

#[derive(Clone, Copy, Debug, PartialEq)]
struct Atom {
    var: usize,
    /// 0 <=, 1 ==, 2 >= (negated <= with value+1), 3 !=
    op: u8,
    value: i64,
}

impl Atom {
    fn holds_value(&self, x: i32) -> bool {
        let x = x as i64;
        match self.op {
            0 => x <= self.value,
            1 => x == self.value,
            2 => x >= self.value,
            _ => x != self.value,
        }
    }
    fn holds(&self, a: &[i32]) -> bool {
        self.holds_value(a[self.var])
    }
    fn negate(&self) -> Atom {
        match self.op {
            0 => Atom { var: self.var, op: 2, value: self.value + 1 },
            2 => Atom { var: self.var, op: 0, value: self.value - 1 },
            1 => Atom { var: self.var, op: 3, value: self.value },
            _ => Atom { var: self.var, op: 1, value: self.value },
        }
    }
    fn show(&self) -> String {
        format!("[x{} {} {}]", self.var, ["<=", "==", ">=", "!="][self.op as usize], self.value)
    }
}

fn viol(class: &str, msg: String) -> Violation {
    Violation { class: class.to_string(), msg, op_index: 0 }
}

impl ProofCase {
    pub fn to_json(&self) -> J {
        J::obj(vec![("type", J::s("proof")), ("prop", J::s(&self.case.prop)), ("inferences", J::Bool(self.inferences)), ("hints", J::Bool(self.hints)), ("case", self.case.to_json())])
    }
    pub fn from_json(j: &J) -> ProofCase {
        ProofCase { case: Case::from_json(j.at("case")), inferences: j.at("inferences").as_bool(), hints: j.at("hints").as_bool() }
    }
    pub fn candidates(&self) -> Vec<ProofCase> {
        let mut out: Vec<ProofCase> = crate::shrink::candidates(&self.case)
            .into_iter()
            .filter(crate::shrink::valid)
            // the final operation stays; only one solve per proof
            .filter(|c| c.ops.iter().filter(|o| o.is_solve()).count() == 1 && c.ops.last().is_some_and(|o| o.is_solve()) && c.knobs.uip)
            .map(|c| ProofCase { case: c, inferences: self.inferences, hints: self.hints })
            .collect();
        if self.hints {
            out.push(ProofCase { case: self.case.clone(), inferences: self.inferences, hints: false });
        }
        out
    }

    pub fn run(&self) -> Outcome {
        let mut stats = Stats::default();
        let violation = self.run_inner(&mut stats).err();
        let trace = crate::rng::fnv(self.to_json().to_string().as_bytes());
        Outcome { violation, trace, stats, polls_per_op: vec![], aborted: None }
    }

    fn run_inner(&self, stats: &mut Stats) -> Result<(), Violation> {
        let n = COUNTER.fetch_add(1, Ordering::SeqCst);
        let dir = format!("{}/.work/proof-{}-{}", crate::verif_root(), std::process::id(), n);
        let _ = std::fs::create_dir_all(&dir);
        let path = format!("{dir}/p.drcp");
        let result = self.solve_and_check(&path, stats);
        let _ = std::fs::remove_dir_all(&dir);
        result
    }

    fn solve_and_check(&self, path: &str, stats: &mut Stats) -> Result<(), Violation> {
        let case = &self.case;
        let proof = ProofLog::cp(std::path::Path::new(path), Format::Text, self.inferences, self.hints).map_err(|e| viol("HARNESS:proof-file", e.to_string()))?;
        let mut solver = Solver::with_options(case.knobs.options(proof));
        let mut binding = Binding::default();
        let mut refm = RefModel::new();
        let mut occ: Vec<u32> = vec![];
        let mut final_op: Option<&Op> = None;
        for op in &case.ops {
            match op {
                Op::AddVar(d) => {
                    binding.add_var(&mut solver, d, Some(format!("x{}", refm.vars.len())));
                    refm.add_var(d.clone());
                    occ.push(0);
                }
                Op::Post(c) => {
                    for v in c.scope() {
                        occ[v] += 1;
                    }
                    let tag = refm.cons.len() as u32 + 1;
                    // an infeasibility error while posting is fine: the final solve concludes
                    let r = adapter::post(&mut solver, &binding, c, Some(tag));
                    fn is_clause(c: &Con) -> bool {
                        match c {
                            Con::PredClause(_) | Con::ViewClause(_) | Con::LitClause(_) | Con::LitConj(_) => true,
                            Con::Not(i) | Con::Half(i, _) | Con::Reif(i, _) => is_clause(i),
                            _ => false,
                        }
                    }
                    if r.is_err() && is_clause(c) {
                        // A clause that is false at the root when it is posted cannot be written
                        // to the proof ("This breaks the proof. If it occurs, we should fix up the
                        // proof logging. The main issue is that nogoods are not tagged." in
                        // add_clause): the gap the code documents itself, outside this check.
                        return Ok(());
                    }
                    refm.add_con(c.clone());
                }
                o if o.is_solve() => final_op = Some(o),
                _ => {}
            }
        }
        let Some(final_op) = final_op else { return Ok(()) };
        if std::env::var("VERIF_DUMP_PROOF").is_ok() {
            eprintln!("--- proof after posting ---\n{}", std::fs::read_to_string(path).unwrap_or_default());
        }
        let b2 = binding.clone();
        let f = move |p: &crate::ir::Pred| b2.pred(p);
        let mut br = build_brancher(&case.brancher, &solver, &binding.vars, &occ, &f);
        let mut clock = FaultClock::never(case.budget.saturating_mul(4));
        let incumbents: RefCell<Vec<Solution>> = RefCell::new(vec![]);
        // (kind, optimal solution): kind 0 unsat, 1 optimal
        let mut concluded: Option<(u8, Option<Solution>)> = None;
        let mut objective: Option<(View, bool)> = None;
        match final_op {
            Op::Satisfy { .. } => {
                let r = with_brancher!(&mut br, b => solver.satisfy(b, &mut clock));
                if let SatisfactionResult::Unsatisfiable = r {
                    concluded = Some((0, None));
                }
            }
            Op::Optimise { obj, minimise, sat_unsat, .. } => {
                objective = Some((*obj, *minimise));
                let dir = if *minimise { OptimisationDirection::Minimise } else { OptimisationDirection::Maximise };
                let view = binding.view(obj);
                let r = with_brancher!(&mut br, b => {
                    fn cb_of<'a, B>(inc: &'a RefCell<Vec<Solution>>) -> impl Fn(&Solver, SolutionReference, &B) + 'a {
                        move |_: &Solver, s: SolutionReference, _: &B| inc.borrow_mut().push(s.into())
                    }
                    if *sat_unsat {
                        solver.optimise(b, &mut clock, LinearSatUnsat::new(dir, view, cb_of(&incumbents)))
                    } else {
                        solver.optimise(b, &mut clock, LinearUnsatSat::new(dir, view, cb_of(&incumbents)))
                    }
                });
                match r {
                    OptimisationResult::Optimal(s) => concluded = Some((1, Some(s))),
                    OptimisationResult::Unsatisfiable => concluded = Some((0, None)),
                    _ => {}
                }
            }
            _ => return Ok(()),
        }
        stats.polls = clock.polls;
        stats.solves = 1;
        drop(br);
        drop(solver);
        let Some((kind, opt_solution)) = concluded else { return Ok(()) };
        // verdict sanity (the answer itself is C02 / C04's subject)
        if kind == 0 && !refm.sols.is_empty() {
            return Ok(());
        }
        let proof_text = std::fs::read_to_string(path).map_err(|e| viol("H-PROOF:no-proof-file", format!("{e}")))?;
        if std::env::var("VERIF_DUMP_PROOF").is_ok() {
            eprintln!("--- proof ---\n{proof_text}");
        }
        let lits_path = std::path::Path::new(path).with_extension("lits");
        let lits_text = std::fs::read_to_string(&lits_path).map_err(|e| viol("H-PROOF:no-literal-definition-file", format!("the solver concluded but wrote no literal definition file: {e}")))?;
        let opt_values: Option<Vec<i32>> = opt_solution.as_ref().map(|s| binding.vars.iter().map(|d| pumpkin_solver::results::ProblemSolution::get_integer_value(s, *d)).collect());
        let incumbent_values: Vec<Vec<i32>> =
            incumbents.into_inner().iter().map(|s| binding.vars.iter().map(|d| pumpkin_solver::results::ProblemSolution::get_integer_value(s, *d)).collect()).collect();
        // the checker's model has one extra variable for the solver's constant "Dummy"
        let mut refm = refm;
        refm.add_var(crate::ir::VarDecl::interval(1, 1));
        let opt_values: Option<Vec<i32>> = opt_values.map(|mut v| {
            v.push(1);
            v
        });
        let incumbent_values: Vec<Vec<i32>> = incumbent_values
            .into_iter()
            .map(|mut v| {
                v.push(1);
                v
            })
            .collect();
        let report = check_proof(&refm, &proof_text, &lits_text, self.inferences, self.hints, kind == 0, objective, opt_values.as_deref(), &incumbent_values);
        match report {
            Ok((n_inf, n_nogood)) => {
                stats.expl_checked = n_inf;
                stats.learned = n_nogood;
                stats.decisions = n_inf + n_nogood; // >= 2 steps: non-trivial
                Ok(())
            }
            Err((class, msg)) => Err(viol(&class, format!("{msg}\n--- proof ---\n{}\n--- literals ---\n{}", clip(&proof_text), clip(&lits_text)))),
        }
    }
}

fn clip(s: &str) -> String {
    if s.len() > 3000 {
        format!("{} …[{} bytes]", &s[..3000], s.len())
    } else {
        s.to_string()
    }
}

type Report = Result<(u64, u64), (String, String)>;

#[allow(clippy::too_many_arguments)]
fn check_proof(
    refm: &RefModel,
    proof: &str,
    lits: &str,
    inferences: bool,
    hints_on: bool,
    expect_unsat: bool,
    objective: Option<(View, bool)>,
    optimal: Option<&[i32]>,
    incumbents: &[Vec<i32>],
) -> Report {
    let e = |c: &str, m: String| -> Report { Err((c.to_string(), m)) };
    // ---- literal definitions ----
    let mut defs: HashMap<i64, Atom> = HashMap::new();
    for line in lits.lines() {
        let line = line.trim();
        if line.is_empty() {
            continue;
        }
        // <code> [<name> <op> <value>]
        let Some((code, rest)) = line.split_once(' ') else { return e("H-PROOF:bad-literal-definition", format!("cannot parse {line:?}")) };
        let inner = rest.trim().trim_start_matches('[').trim_end_matches(']');
        let parts: Vec<&str> = inner.split_whitespace().collect();
        if parts.len() != 3 {
            return e("H-PROOF:bad-literal-definition", format!("cannot parse {line:?}"));
        }
        // "Dummy" is the solver's always-true variable (fixed to 1); it is modelled as one more
        // variable with the singleton domain {1}
        let var = if parts[0] == "Dummy" { Some(refm.vars.len() - 1) } else { parts[0].strip_prefix('x').and_then(|s| s.parse::<usize>().ok()).filter(|v| *v + 1 < refm.vars.len()) };
        let Some(var) = var else {
            return e("H-PROOF:literal-over-unknown-variable", format!("the definition {line:?} names a variable the model does not have"));
        };
        let op = match parts[1] {
            "<=" => 0,
            "==" => 1,
            ">=" => 2,
            "!=" => 3,
            _ => return e("H-PROOF:bad-literal-definition", format!("cannot parse {line:?}")),
        };
        let (Ok(code), Ok(value)) = (code.parse::<i64>(), parts[2].parse::<i64>()) else { return e("H-PROOF:bad-literal-definition", format!("cannot parse {line:?}")) };
        defs.insert(code, Atom { var, op, value });
    }
    let atom = |code: i64| -> Option<Atom> {
        let a = defs.get(&code.abs())?;
        Some(if code > 0 { *a } else { a.negate() })
    };

    let full_domains: Vec<Vec<i32>> = refm.vars.iter().map(|v| v.values.clone()).collect();
    // every assignment of the declared domains in which the literals created for predicates
    // have the value of their predicate
    let space: Vec<Vec<i32>> = {
        let mut sp = RefModel::new();
        for v in &refm.vars {
            sp.add_var(v.clone());
        }
        sp.sols
    };
    // steps: id -> clause (as atoms); inference ids since the last nogood
    let mut steps: BTreeMap<u64, Vec<Atom>> = BTreeMap::new();
    let mut axioms: Vec<Atom> = vec![]; // objective bounds in force (conjunction)
    let mut empty_verified = false;
    let mut conclusion: Option<String> = None;
    let mut n_inf = 0u64;
    let mut n_nogood = 0u64;

    for (ln, line) in proof.lines().enumerate() {
        let t: Vec<&str> = line.split_whitespace().collect();
        if t.is_empty() {
            continue;
        }
        if conclusion.is_some() {
            return e("H-PROOF:steps-after-conclusion", format!("line {} follows the conclusion", ln + 1));
        }
        match t[0] {
            "i" => {
                n_inf += 1;
                if !inferences {
                    return e("H-PROOF:inference-in-scaffold", format!("line {}: a scaffold proof contains an inference", ln + 1));
                }
                let Ok(id) = t[1].parse::<u64>() else { return e("H-PROOF:bad-step", format!("line {}: {line:?}", ln + 1)) };
                let mut prem: Vec<Atom> = vec![];
                let mut concl: Option<Atom> = None;
                let mut tag: Option<usize> = None;
                let mut i = 2;
                let mut after_zero = false;
                while i < t.len() {
                    let tok = t[i];
                    if let Some(c) = tok.strip_prefix("c:") {
                        tag = c.parse::<usize>().ok();
                    } else if tok.starts_with("l:") {
                    } else if tok == "0" {
                        after_zero = true;
                    } else {
                        let Ok(code) = tok.parse::<i64>() else { return e("H-PROOF:bad-step", format!("line {}: {line:?}", ln + 1)) };
                        let Some(a) = atom(code) else { return e("H-PROOF:unmapped-literal-code", format!("line {}: code {code} has no definition", ln + 1)) };
                        if after_zero {
                            concl = Some(a);
                        } else {
                            prem.push(a);
                        }
                    }
                    i += 1;
                }
                // semantic check
                let show = || format!("{} -> {}", prem.iter().map(|a| a.show()).collect::<Vec<_>>().join(" & "), concl.map(|a| a.show()).unwrap_or("false".into()));
                match tag {
                    Some(tg) if tg >= 1 && tg <= refm.cons.len() => {
                        let con = &refm.cons[tg - 1];
                        let mut scope = con.scope();
                        scope.extend(prem.iter().map(|a| a.var));
                        if let Some(c) = concl {
                            scope.push(c.var);
                        }
                        // a literal created for a predicate is written as that predicate in the
                        // proof: the constraint is read together with the definitions of the
                        // literals it mentions
                        let mut grew = true;
                        while grew {
                            grew = false;
                            for v in scope.clone() {
                                if let Some(l) = &refm.vars[v].link {
                                    if !scope.contains(&l.var) {
                                        scope.push(l.var);
                                        grew = true;
                                    }
                                }
                            }
                        }
                        scope.sort();
                        scope.dedup();
                        let links_hold = |a: &Vec<i32>| scope.iter().all(|v| refm.vars[*v].link.as_ref().is_none_or(|l| (a[*v] == 1) == l.holds(a)));
                        if let Some(a) = assignments_over(&refm.vars, &scope).into_iter().find(|a| links_hold(a) && con.holds(a) && prem.iter().all(|p| p.holds(a)) && concl.is_none_or(|c| !c.holds(a))) {
                            return e(
                                "H-PROOF:inference-does-not-follow-from-its-constraint",
                                format!("line {}: inference {} tagged with constraint #{} {} is refuted by the assignment {a:?}", ln + 1, show(), tg - 1, con.to_json().to_string()),
                            );
                        }
                    }
                    Some(tg) => return e("H-PROOF:unknown-constraint-tag", format!("line {}: tag {tg} does not name a posted constraint", ln + 1)),
                    None => {
                        // untagged: a fact of the nogood propagator (user clause / learned nogood) -
                        // must be implied by the model and the objective bounds in force - or the
                        // objective bound itself
                        let refuted = refm.sols.iter().find(|s| axioms.iter().all(|x| x.holds(s)) && prem.iter().all(|p| p.holds(s)) && concl.is_none_or(|c| !c.holds(s)));
                        if let Some(s) = refuted {
                            let mut accepted = false;
                            if let Some((obj, minimise)) = objective {
                                // the strengthening step: (not premise) is "objective strictly
                                // better than an incumbent the harness saw"
                                if prem.len() == 1 && concl.is_none() {
                                    let clause = prem[0].negate();
                                    for inc in incumbents {
                                        let v = obj.eval(inc);
                                        let better = |x: i128| if minimise { x < v } else { x > v };
                                        if space.iter().all(|a| clause.holds(a) == better(obj.eval(a))) {
                                            accepted = true;
                                        }
                                    }
                                    if accepted {
                                        axioms.push(clause);
                                    }
                                }
                            }
                            if !accepted {
                                return e("H-PROOF:untagged-inference-not-implied-by-model", format!("line {}: untagged inference {} is refuted by the solution {s:?}", ln + 1, show()));
                            }
                        }
                    }
                }
                let mut clause: Vec<Atom> = prem.iter().map(|p| p.negate()).collect();
                if let Some(c) = concl {
                    clause.push(c);
                }
                steps.insert(id, clause);
            }
            "n" => {
                n_nogood += 1;
                let Ok(id) = t[1].parse::<u64>() else { return e("H-PROOF:bad-step", format!("line {}: {line:?}", ln + 1)) };
                let mut clause: Vec<Atom> = vec![];
                let mut hint_ids: Option<Vec<u64>> = None;
                for tok in &t[2..] {
                    if *tok == "0" && hint_ids.is_none() {
                        hint_ids = Some(vec![]);
                    } else if let Some(h) = hint_ids.as_mut() {
                        let Ok(x) = tok.parse::<u64>() else { return e("H-PROOF:bad-step", format!("line {}: {line:?}", ln + 1)) };
                        h.push(x);
                    } else {
                        let Ok(code) = tok.parse::<i64>() else { return e("H-PROOF:bad-step", format!("line {}: {line:?}", ln + 1)) };
                        let Some(a) = atom(code) else { return e("H-PROOF:unmapped-literal-code", format!("line {}: code {code} has no definition", ln + 1)) };
                        clause.push(a);
                    }
                }
                if hints_on && hint_ids.is_none() && inferences {
                    return e("H-PROOF:hints-missing", format!("line {}: a hinted proof contains a nogood without hints", ln + 1));
                }
                if inferences {
                    // reverse unit propagation over domains
                    let usable: Vec<&Vec<Atom>> = match &hint_ids {
                        Some(h) => {
                            let mut u = vec![];
                            for x in h {
                                match steps.get(x) {
                                    Some(c) => u.push(c),
                                    None => return e("H-PROOF:hint-to-unknown-step", format!("line {}: hint {x} does not name an earlier step", ln + 1)),
                                }
                            }
                            u
                        }
                        None => steps.values().collect(),
                    };
                    let mut dom: Vec<Vec<i32>> = full_domains.clone();
                    for a in &clause {
                        let na = a.negate();
                        dom[na.var].retain(|x| na.holds_value(*x));
                    }
                    let mut conflict = dom.iter().any(|d| d.is_empty());
                    let mut changed = true;
                    while changed && !conflict {
                        changed = false;
                        for c in &usable {
                            let mut sat = false;
                            let mut undecided: Vec<&Atom> = vec![];
                            for a in c.iter() {
                                let d = &dom[a.var];
                                if d.iter().all(|x| a.holds_value(*x)) {
                                    sat = true;
                                    break;
                                }
                                if d.iter().any(|x| a.holds_value(*x)) {
                                    undecided.push(a);
                                }
                            }
                            if sat {
                                continue;
                            }
                            if undecided.is_empty() {
                                conflict = true;
                                break;
                            }
                            if undecided.len() == 1 {
                                let a = *undecided[0];
                                dom[a.var].retain(|x| a.holds_value(*x));
                                changed = true;
                                if dom[a.var].is_empty() {
                                    conflict = true;
                                    break;
                                }
                            }
                        }
                    }
                    if !conflict {
                        return e(
                            "H-PROOF:nogood-not-derivable",
                            format!(
                                "line {}: nogood {} is not derivable by reverse unit propagation from {}",
                                ln + 1,
                                clause.iter().map(|a| a.show()).collect::<Vec<_>>().join(" | "),
                                if hint_ids.is_some() { "its hinted steps" } else { "the preceding steps" }
                            ),
                        );
                    }
                }
                if clause.is_empty() {
                    empty_verified = true;
                }
                steps.insert(id, clause);
            }
            "d" => {
                if let Ok(id) = t[1].parse::<u64>() {
                    steps.remove(&id);
                }
            }
            "c" => conclusion = Some(t[1..].join(" ")),
            other => return e("H-PROOF:bad-step", format!("line {}: unknown step kind {other:?}", ln + 1)),
        }
    }
    match conclusion.as_deref() {
        None => return e("H-PROOF:no-conclusion", "the solver concluded but the proof has no conclusion line".into()),
        Some("UNSAT") => {
            if !expect_unsat {
                return e("H-PROOF:wrong-conclusion", "UNSAT conclusion for an optimality result".into());
            }
            if !empty_verified {
                return e("H-PROOF:unsat-without-empty-nogood", "the UNSAT conclusion is not preceded by the empty nogood".into());
            }
        }
        Some(lit) => {
            if expect_unsat {
                return e("H-PROOF:wrong-conclusion", format!("conclusion {lit:?} for an unsatisfiable model"));
            }
            let Ok(code) = lit.parse::<i64>() else { return e("H-PROOF:bad-step", format!("conclusion {lit:?}")) };
            let Some(a) = atom(code) else { return e("H-PROOF:unmapped-literal-code", format!("conclusion code {code} has no definition")) };
            let (obj, minimise) = objective.unwrap();
            let opt = optimal.unwrap();
            let best = refm.sols.iter().map(|s| obj.eval(s)).reduce(|x, y| if minimise == (y < x) { y } else { x });
            // The conclusion is a bound on the objective whose constant is the optimum. The
            // solver writes [objective <= optimum] in both directions (the bound that was reached
            // when minimising, the dual bound when maximising); which of the two a conclusion
            // should be is not what this check judges. The literal may be written over another
            // variable than the objective's (a literal created for a predicate is written as
            // that predicate), so the bound is judged by what it says: it holds in the optimal
            // solution, and among everything that satisfies it the optimum is an extreme value
            // of the objective.
            if !a.holds(opt) {
                return e("H-PROOF:bound-excludes-the-optimal-solution", format!("the optimality conclusion {} does not hold in the returned solution {opt:?}", a.show()));
            }
            let best = best.expect("an optimal solution exists");
            let admitted: Vec<i128> = space.iter().filter(|s| a.holds(s)).map(|s| obj.eval(s)).collect();
            let lo = admitted.iter().min().copied();
            let hi = admitted.iter().max().copied();
            if lo != Some(best) && hi != Some(best) {
                return e("H-PROOF:bound-is-not-the-optimum", format!("the optimality conclusion {} does not state the optimum {best}: the objective values it admits range over {lo:?}..{hi:?} (optimal solution {opt:?})", a.show()));
            }
            if obj.eval(opt) != best {
                return e("H-PROOF:bound-is-not-the-optimum", format!("the returned solution {opt:?} is not optimal ({best})"));
            }
        }
    }
    Ok((n_inf, n_nogood))
}

/// Workload: models that end in UNSAT or in an optimum, with proof logging on.
pub fn generate(prop: &str, rng: &mut crate::rng::Rng, thorough: bool) -> ProofCase {
    use crate::gen::*;
    // Clauses posted through the API cannot be tagged ("tagging clauses is not implemented"; the
    // code notes that untagged nogoods are a gap of the proof logging), so a derivation that rests
    // on one has no inference a checker could validate; they are outside this workload.
    let with_clauses = true;
    let mut pool: Vec<Kind> = CORE_KINDS.iter().copied().filter(|k| with_clauses || !matches!(k, Kind::PredClause | Kind::ViewClause | Kind::LitClause | Kind::LitConj)).collect();
    pool.push(Kind::Cumulative);
    let mut sw = Swarm::draw(rng, &pool, thorough);
    let optimise = rng.chance(0.45);
    if !optimise {
        // unsatisfiable models are the interesting ones
        sw.planted = false;
        sw.min_cons = 2;
        sw.max_cons = 6;
    }
    sw.max_space = 3_000;
    if !optimise && rng.chance(0.45) {
        // denser refutations: more variables with two or three values and more constraints, so
        // that conflicts are several propagations deep, facts get derived at the root in between,
        // and minimisation has something to remove
        sw.min_vars = 5;
        sw.max_vars = 9;
        sw.max_domain = 3;
        sw.min_cons = 6;
        sw.max_cons = 12;
        sw.max_space = 20_000;
    }
    let (mut vars, mut cons) = gen_model(rng, &sw);
    if !optimise && rng.chance(0.3) {
        // refutations that need search: colouring a dense graph with too few colours (pairwise
        // not-equals propagate next to nothing), plus one or two constraints of the swarm
        let m = rng.range(4, 6) as usize;
        // (at most three colours: the refutation of a 6-clique with 5 colours takes thousands of
        // conflicts, and checking its proof minutes)
        let k = rng.range(2, if m <= 5 { m as i64 - 1 } else { 3 }) as i32;
        vars = (0..m).map(|_| VarDecl::interval(1, k)).collect();
        if rng.chance(0.5) {
            vars.push(VarDecl::boolean());
        }
        let keep = cons.len().min(rng.below(3));
        let extra: Vec<Con> = cons.iter().take(keep).filter(|c| c.scope().iter().all(|v| *v < vars.len()) && crate::shrink::valid_con(c, &vars)).cloned().collect();
        cons = vec![];
        for i in 0..m {
            for j in i + 1..m {
                if rng.chance(0.85) {
                    let (a, b) = (View::plain(i), View::plain(j));
                    cons.push(match rng.below(4) {
                        0 => Con::LinNe(vec![a, View { var: j, scale: -1, off: 0 }], 0),
                        _ => Con::BinNe(a, b),
                    });
                }
            }
        }
        cons.extend(extra);
    }
    let mut ops = model_ops(&vars, &cons);
    if optimise {
        ops.push(Op::Optimise { obj: gen_view(rng, vars.len(), true), minimise: rng.chance(0.5), sat_unsat: rng.chance(0.5), interrupt: None });
    } else {
        ops.push(Op::Satisfy { interrupt: None });
    }
    let mut knobs = crate::sched::Knobs::random(rng);
    knobs.uip = true; // proof logging is only meaningful with learning
    let br = if rng.chance(0.8) { crate::sched::BrancherSpec::random_sched(rng) } else { crate::sched::BrancherSpec::random_builtin(rng) };
    let mut checks = default_checks();
    checks.bounds = false;
    let case = base_case(prop, "proof", knobs, br, ops, checks);
    let mode = rng.below(10);
    ProofCase { case, inferences: mode >= 2, hints: mode >= 6 }
}

#[allow(dead_code)]
fn _unused(_: &VarDecl, _: &Con) {}
