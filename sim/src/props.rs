//! Per-property workloads: what a "unit" of exploration is for each property, and the
//! scenario-aware execution of one explicit case.
use crate::exec::{run_case, Case, Checks, Op, Outcome, Stats, Violation};
use crate::gen::*;
use crate::ir::{Con, Lit, Pk, Pred, VarDecl, View};
use crate::json::J;
use crate::rng::Rng;
use crate::sched::{BrancherSpec, Knobs};

#[derive(Clone, Copy, Debug, PartialEq, Eq)]
pub enum Tier {
    Quick,
    Thorough,
}

impl Tier {
    pub fn name(self) -> &'static str {
        match self {
            Tier::Quick => "quick",
            Tier::Thorough => "thorough",
        }
    }
}

#[derive(Default)]
pub struct UnitResult {
    pub cases: u64,
    /// (trace id, non-trivial)
    pub traces: Vec<(u64, bool)>,
    pub stats: Stats,
    pub violation: Option<(crate::anycase::AnyCase, Violation)>,
    pub sample: Option<J>,
}

pub fn merge_stats(into: &mut Stats, s: &Stats) {
    into.polls += s.polls;
    into.decisions += s.decisions;
    into.learned += s.learned;
    into.solutions += s.solutions;
    into.solves += s.solves;
    into.expl_events += s.expl_events;
    into.expl_checked += s.expl_checked;
    into.decisions_checked += s.decisions_checked;
    into.faults_fired += s.faults_fired;
    into.unknown_after_interrupt += s.unknown_after_interrupt;
    into.inconclusive += s.inconclusive;
    into.aborted += s.aborted;
    into.bound_changes += s.bound_changes;
    into.states.extend_from_slice(&s.states);
    for (k, v) in &s.probes {
        *into.probes.entry(k.clone()).or_insert(0) += v;
    }
}

/// Executes one explicit case the way its scenario demands. This is also what replay and the
/// shrinker call, so a replay file is exactly one `Case`.
pub fn check_case(case: &Case) -> Outcome {
    match case.scen.as_str() {
        "twin" => {
            // TwinRun (C20, library half): the same case twice; every decision, solution, poll
            // count and learned nogood is folded into the trace id, which must be identical.
            let a = run_case(case);
            let b = run_case(case);
            let mut out = a.clone();
            if a.violation.is_none() && (a.trace != b.trace || a.stats.polls != b.stats.polls || a.stats.decisions != b.stats.decisions) {
                out.violation = Some(Violation {
                    class: "H-TWIN:library-runs-differ".to_string(),
                    msg: format!("two executions of the same case differ: trace {:016x} vs {:016x}, polls {} vs {}, decisions {} vs {}", a.trace, b.trace, a.stats.polls, b.stats.polls, a.stats.decisions, b.stats.decisions),
                    op_index: 0,
                });
            }
            out
        }
        _ => run_case(case),
    }
}

pub fn check_case_trace(case: &Case) -> u64 {
    check_case(case).trace
}

fn lib_checks(prop: &str) -> Checks {
    let mut c = default_checks();
    match prop {
        // purely safety-style statements: a panic hands out nothing wrong
        "C01" | "C12" | "C17" => c.panic_violation = false,
        _ => {}
    }
    // the bounds oracle belongs to the two properties that talk about reported bounds
    c.bounds = matches!(prop, "C10" | "C12");
    match prop {
        "C02" | "C07" => c.learned = true,
        // the incremental time-tables are only as good as their explanations: the explanation and
        // learned-nogood oracles localise a wrong reason long before a solution is lost
        "C08" => {
            c.learned = true;
            c.expl = true;
        }
        "C17" => c.expl = true,
        "C18" => c.decision = true,
        _ => {}
    }
    c
}

fn final_solve_op(rng: &mut Rng, vars: &[VarDecl], which: &[u8]) -> Op {
    match *rng.pick(which) {
        0 => Op::Satisfy { interrupt: None },
        1 => Op::Iterate { max: usize::MAX, interrupt: None },
        2 => Op::Assume { preds: gen_assumptions(rng, vars, 3), core: rng.chance(0.5), interrupt: None },
        3 => Op::Optimise { obj: gen_view(rng, vars.len(), true), minimise: rng.chance(0.5), sat_unsat: false, interrupt: None },
        _ => Op::Optimise { obj: gen_view(rng, vars.len(), true), minimise: rng.chance(0.5), sat_unsat: true, interrupt: None },
    }
}

fn thorough(t: Tier) -> bool {
    t == Tier::Thorough
}

/// Kinds used by the general-purpose workloads. Cumulative has its own property (C08).
fn general_pool() -> Vec<Kind> {
    let mut k = CORE_KINDS.to_vec();
    k.push(Kind::Cumulative);
    // development switch: restrict the pool, e.g. VERIF_KINDS=PredClause,LinLe
    if let Ok(names) = std::env::var("VERIF_KINDS") {
        let want: Vec<&str> = names.split(',').collect();
        k.retain(|x| want.contains(&format!("{x:?}").as_str()));
    }
    if let Ok(names) = std::env::var("VERIF_SKIP_KINDS") {
        let skip: Vec<&str> = names.split(',').collect();
        k.retain(|x| !skip.contains(&format!("{x:?}").as_str()));
    }
    k
}

/// Steering away from the regions of open findings (DESIGN.md §8), so that the rest of the space
/// keeps its full budget and sensitivity; a small dedicated slice still visits each region.
fn steer(case: &mut Case, rng: &mut Rng) {
    // KF-001: the no-learning resolver does not support assumptions (it flips them like
    // decisions); LinearUnsatSat optimisation is assumption-based as well
    let uses_assumptions = case.ops.iter().any(|o| matches!(o, Op::Assume { .. } | Op::Optimise { sat_unsat: false, .. }));
    let slice = matches!(case.prop.as_str(), "C04" | "C05" | "C07" | "C10") && rng.chance(0.02);
    if !case.knobs.uip && uses_assumptions && !slice {
        case.knobs.uip = true;
        case.liveness = case.knobs.terminates();
    }
}

/// The cases of one unit for the properties whose units are a fixed list of cases.
pub fn gen_unit(prop: &str, tier: Tier, rng: &mut Rng) -> Vec<Case> {
    let mut cases = gen_unit_raw(prop, tier, rng);
    for c in cases.iter_mut() {
        steer(c, rng);
    }
    cases
}

fn gen_unit_raw(prop: &str, tier: Tier, rng: &mut Rng) -> Vec<Case> {
    let th = thorough(tier);
    let checks = lib_checks(prop);
    match prop {
        "C01" => {
            let sw = Swarm::draw(rng, &general_pool(), th);
            let (vars, cons) = gen_model(rng, &sw);
            let mut ops = model_ops(&vars, &cons);
            ops.push(final_solve_op(rng, &vars, &[0, 1, 1, 2, 3, 4]));
            let br = if rng.chance(0.8) { BrancherSpec::random_sched(rng) } else { BrancherSpec::random_builtin(rng) };
            vec![base_case(prop, "solve", Knobs::random(rng), br, ops, checks)]
        }
        "C02" => {
            let sw = Swarm::draw(rng, &general_pool(), th);
            let (vars, cons) = gen_model(rng, &sw);
            let mut ops = model_ops(&vars, &cons);
            ops.push(final_solve_op(rng, &vars, &[0, 0, 1]));
            let br = if rng.chance(0.8) { BrancherSpec::random_sched(rng) } else { BrancherSpec::random_builtin(rng) };
            vec![base_case(prop, "solve", Knobs::random(rng), br, ops, checks)]
        }
        "C03" => {
            let mut sw = Swarm::draw(rng, &general_pool(), th);
            // the dedicated slice for aliasing inside one constraint (open finding KF-006 for element)
            sw.alias = rng.chance(0.03);
            let (vars, cons) = gen_model(rng, &sw);
            let mut ops = model_ops(&vars, &cons);
            ops.push(Op::Iterate { max: usize::MAX, interrupt: None });
            let br = if rng.chance(0.7) { BrancherSpec::random_sched(rng) } else { BrancherSpec::random_builtin(rng) };
            vec![base_case(prop, "solve", Knobs::random(rng), br, ops, checks)]
        }
        "C04" => {
            let mut sw = Swarm::draw(rng, &general_pool(), th);
            let wide = rng.chance(0.5);
            if wide {
                sw.max_space = if th { 3_000 } else { 800 };
                sw.max_vars = 4;
            }
            let knapsack = rng.chance(0.35);
            let (mut vars, mut cons) = if knapsack { gen_knapsack_model(rng) } else { gen_model(rng, &sw) };
            if wide && !knapsack {
                // an objective variable with a wide range, defined as a linear combination of the
                // others: many improving steps, bounds that propagate through the definition
                let k = rng.range(1, vars.len().min(3) as i64) as usize;
                let mut terms: Vec<View> = (0..k).map(|i| View { var: i, scale: *rng.pick(&[1, 1, 2, -1, 3]), off: 0 }).collect();
                let lo: i128 = terms.iter().map(|t| vars[t.var].values.iter().map(|x| t.eval_value(*x)).min().unwrap()).sum();
                let hi: i128 = terms.iter().map(|t| vars[t.var].values.iter().map(|x| t.eval_value(*x)).max().unwrap()).sum();
                let z = vars.len();
                let slack = rng.range32(0, 2);
                vars.push(VarDecl::interval(lo as i32 - slack, hi as i32 + slack));
                terms.push(View { var: z, scale: -1, off: 0 });
                cons.push(Con::LinEq(terms, 0));
            }
            let mut ops = model_ops(&vars, &cons);
            // objective: plain variable, general view, or a variable fixed / decided at the root
            let obj = if (wide || knapsack) && rng.chance(0.85) {
                let z = vars.len() - 1;
                if rng.chance(0.6) {
                    View::plain(z)
                } else {
                    View { var: z, scale: *rng.pick(&[-1, 2, -2]), off: rng.range32(-2, 2) }
                }
            } else if rng.chance(0.15) {
                let fixed: Vec<usize> = (0..vars.len()).filter(|i| vars[*i].values.len() == 1).collect();
                if fixed.is_empty() {
                    gen_view(rng, vars.len(), true)
                } else {
                    View::plain(*rng.pick(&fixed))
                }
            } else {
                gen_view(rng, vars.len(), true)
            };
            // in a slice the optimisation is not the first call on the solver: a solve under
            // assumptions, an (interrupted) assumption-based optimisation or a plain solve came
            // before it. (LinearSatUnsat as an earlier call is left to C10: open finding KF-002.)
            let history = rng.chance(0.3);
            if history {
                for _ in 0..rng.range(1, 2) {
                    let op = match rng.below(4) {
                        0 | 1 => Op::Assume { preds: gen_assumptions(rng, &vars, 3), core: rng.chance(0.3), interrupt: None },
                        2 => Op::Optimise {
                            obj: gen_view(rng, vars.len(), true),
                            minimise: rng.chance(0.5),
                            sat_unsat: false,
                            interrupt: if rng.chance(0.6) { Some(rng.range(1, 40) as u64) } else { None },
                        },
                        _ => Op::Satisfy { interrupt: None },
                    };
                    ops.push(op);
                }
            }
            // the termination condition fires inside the optimisation in a slice: the answer may
            // then be Satisfiable / Unknown, never a wrong Optimal
            let interrupt = if rng.chance(0.25) { Some(rng.range(1, 60) as u64) } else { None };
            ops.push(Op::Optimise { obj, minimise: rng.chance(0.5), sat_unsat: rng.chance(0.5), interrupt });
            let br = if rng.chance(0.8) { BrancherSpec::random_sched(rng) } else { BrancherSpec::random_builtin(rng) };
            vec![base_case(prop, if history { "history" } else { "solve" }, Knobs::random(rng), br, ops, checks)]
        }
        "C05" => {
            let sw = Swarm::draw(rng, &general_pool(), th);
            let (vars, cons) = gen_model(rng, &sw);
            let mut ops = model_ops(&vars, &cons);
            for _ in 0..rng.range(1, 4) {
                // in a slice the solve under assumptions is interrupted: the assumptions must not
                // stay behind then either
                let interrupt = if rng.chance(0.15) { Some(rng.range(0, 8) as u64) } else { None };
                ops.push(Op::Assume { preds: gen_assumptions(rng, &vars, 4), core: rng.chance(0.6), interrupt });
            }
            // non-retention: a plain solve afterwards answers for the original model
            ops.push(if rng.chance(0.5) { Op::Satisfy { interrupt: None } } else { Op::Iterate { max: usize::MAX, interrupt: None } });
            let mut knobs = Knobs::random(rng);
            if rng.chance(0.3) {
                // restarts below the assumption levels
                knobs.no_restarts = false;
                knobs.seq = 0;
                knobs.base = 1;
                knobs.first = 0;
                knobs.lbd_coef = 0.0;
            }
            let br = if rng.chance(0.8) { BrancherSpec::random_sched(rng) } else { BrancherSpec::random_builtin(rng) };
            vec![base_case(prop, "history", knobs, br, ops, checks)]
        }
        "C07" => {
            // one model and operation under a covering set of configurations; each answer is
            // compared with the reference (hence with each other)
            let sw = Swarm::draw(rng, &general_pool(), th);
            let (vars, cons) = gen_model(rng, &sw);
            let mut ops = model_ops(&vars, &cons);
            ops.push(final_solve_op(rng, &vars, &[0, 1, 1, 3, 4]));
            let n = if th { 12 } else { 8 };
            let mut out = vec![];
            for i in 0..n {
                let mut knobs = Knobs::random(rng);
                // make sure both resolvers, both minimisation settings and the database regimes
                // all occur for every model
                knobs.uip = i % 4 != 3;
                knobs.minimise = i % 2 == 0;
                if i % 3 == 0 {
                    knobs.limit = *rng.pick(&[0, 1, 2]);
                }
                let br = if i % 2 == 0 { BrancherSpec::random_sched(rng) } else { BrancherSpec::random_builtin(rng) };
                out.push(base_case(prop, "config", knobs, br, ops.clone(), checks));
            }
            out
        }
        "C08" => {
            let mut sw = Swarm::draw(rng, &[Kind::Cumulative], th);
            sw.kinds = vec![Kind::Cumulative];
            sw.min_vars = 1;
            sw.max_vars = 4;
            sw.min_cons = 1;
            sw.max_cons = 2;
            sw.reif_rate = 0.0;
            sw.cumulative_overload = rng.chance(0.3) && std::env::var("VERIF_NO_OVERLOAD").is_err();
            sw.alias = false;
            let (vars, mut cons) = if rng.chance(0.6) { gen_scheduling_model(rng, th) } else { gen_model(rng, &sw) };
            if rng.chance(0.3) {
                // an additional simple constraint makes bound changes come from elsewhere too
                let sw2 = Swarm { kinds: vec![Kind::LinLe, Kind::BinNe, Kind::PredClause], reif_rate: 0.0, ..sw.clone() };
                let mut g = ModelGen { rng, sw: &sw2, vars: vars.clone(), planted: None };
                if let Some(c) = g.constraint() {
                    cons.push(c);
                }
            }
            // the same task set under several of the 144 option combinations: the solution set must
            // be the time-point definition for each of them
            let n = if th { 16 } else { 6 };
            let mut out = vec![];
            for _ in 0..n {
                let opt = rng.below(144) as u32;
                let cons2: Vec<Con> = cons
                    .iter()
                    .map(|c| match c {
                        Con::Cumulative { starts, durations, usages, capacity, .. } => {
                            Con::Cumulative { starts: starts.clone(), durations: durations.clone(), usages: usages.clone(), capacity: *capacity, options: opt }
                        }
                        c => c.clone(),
                    })
                    .collect();
                let mut ops = model_ops(&vars, &cons2);
                ops.push(Op::Iterate { max: usize::MAX, interrupt: None });
                let br = if rng.chance(0.8) { BrancherSpec::random_sched(rng) } else { BrancherSpec::random_builtin(rng) };
                out.push(base_case(prop, "cumulative", Knobs::random(rng), br, ops, checks));
            }
            out
        }
        "C09" => {
            let mut sw = Swarm::draw(rng, &general_pool(), th);
            sw.kinds.retain(|k| *k != Kind::PredClause && *k != Kind::ViewClause);
            if sw.kinds.is_empty() {
                sw.kinds.push(Kind::LinLe);
            }
            if rng.chance(0.2) && general_pool().contains(&Kind::Cumulative) {
                // half-reified cumulative under all of its options (the incremental time-tables
                // are notified and backtracked while the literal is not true, and only propagate
                // once it is)
                sw.kinds = vec![Kind::Cumulative];
                if rng.chance(0.5) {
                    sw.kinds.push(*rng.pick(&[Kind::LinLe, Kind::BinNe, Kind::BinLe]));
                }
                sw.max_vars = 5;
            }
            sw.reif_rate = 1.0;
            sw.max_cons = 3;
            let (vars, cons) = gen_model(rng, &sw);
            let mut ops: Vec<Op> = vars.iter().map(|v| Op::AddVar(v.clone())).collect();
            for c in &cons {
                // the reification literal's status when posting: free, already true, already false
                if let Con::Half(_, l) | Con::Reif(_, l) = c {
                    match rng.below(4) {
                        0 => ops.push(Op::Post(Con::PredClause(vec![Pred { var: l.var, k: Pk::Eq, val: 1 }]))),
                        1 => ops.push(Op::Post(Con::PredClause(vec![Pred { var: l.var, k: Pk::Eq, val: 0 }]))),
                        _ => {}
                    }
                }
                ops.push(Op::Post(c.clone()));
            }
            ops.push(Op::Iterate { max: usize::MAX, interrupt: None });
            let br = if rng.chance(0.85) { BrancherSpec::random_sched(rng) } else { BrancherSpec::random_builtin(rng) };
            vec![base_case(prop, "solve", Knobs::random(rng), br, ops, checks)]
        }
        "C10" => vec![gen_history(prop, tier, rng, checks)],
        "C12" => {
            let mut sw = Swarm::draw(rng, &general_pool(), th);
            sw.views = 2;
            let (vars, cons) = gen_model(rng, &sw);
            // interleave creations and postings; the bounds oracle runs after every op
            let mut ops = vec![];
            let mut posted = 0;
            for (i, v) in vars.iter().enumerate() {
                ops.push(Op::AddVar(v.clone()));
                // post the constraints whose scope is available already
                while posted < cons.len() && cons[posted].scope().iter().all(|x| *x <= i) && rng.chance(0.5) {
                    ops.push(Op::Post(cons[posted].clone()));
                    ops.push(Op::Bounds);
                    posted += 1;
                }
            }
            for c in &cons[posted..] {
                ops.push(Op::Post(c.clone()));
                ops.push(Op::Bounds);
            }
            vec![base_case(prop, "posting", Knobs::random(rng), BrancherSpec::Sched { mode: 0, seed: 1 }, ops, checks)]
        }
        "C16" => {
            let (vars, cons) = gen_magnitude_model(rng);
            let mut ops = model_ops(&vars, &cons);
            ops.push(final_solve_op(rng, &vars, &[0, 1, 1, 1]));
            let mut knobs = Knobs::random(rng);
            knobs.uip = true;
            vec![base_case(prop, "magnitude", knobs, BrancherSpec::random_sched(rng), ops, checks)]
        }
        "C17" => {
            let mut sw = Swarm::draw(rng, &general_pool(), th);
            sw.max_space = 4_000;
            sw.max_vars = 5;
            // Every propagator gets its share of the budget: half of the units are built around
            // one kind of constraint (plus at most two simple kinds that move bounds from
            // elsewhere), a fifth are scheduling-shaped (cumulative under all its options).
            let focus = rng.below(10);
            let (vars, cons) = if focus < 5 {
                let pool = general_pool();
                let primary = *rng.pick(&pool);
                let mut kinds = vec![primary];
                for _ in 0..rng.below(3) {
                    kinds.push(*rng.pick(&[Kind::LinLe, Kind::BinNe, Kind::BinLe, Kind::LinEq]));
                }
                kinds.retain(|k| pool.contains(k));
                if kinds.is_empty() {
                    kinds.push(primary);
                }
                sw.kinds = kinds;
                sw.min_cons = 1;
                sw.max_cons = 4;
                gen_model(rng, &sw)
            } else if focus < 7 && general_pool().contains(&Kind::Cumulative) {
                // gen_scheduling_model leaves the option set to its caller (0): draw one of the 144
                // combinations from a side stream, so that the main stream of the other slices is
                // the one the stored seeded changes were measured with
                let mut side = Rng::new(crate::rng::splitmix(rng.clone().next_u64() ^ 0xC17_0CC5));
                let (vars, mut cons) = gen_scheduling_model(rng, th);
                for c in cons.iter_mut() {
                    if let Con::Cumulative { options, .. } = c {
                        *options = side.below(144) as u32;
                    }
                }
                (vars, cons)
            } else {
                gen_model(rng, &sw)
            };
            let mut ops = model_ops(&vars, &cons);
            ops.push(final_solve_op(rng, &vars, &[1, 1, 1, 0, 2, 3, 4]));
            let br = if rng.chance(0.85) { BrancherSpec::random_sched(rng) } else { BrancherSpec::random_builtin(rng) };
            vec![base_case(prop, "solve", Knobs::random(rng), br, ops, checks)]
        }
        "C18" => {
            let mut sw = Swarm::draw(rng, &general_pool(), th);
            sw.max_domain = 6;
            let (vars, cons) = gen_model(rng, &sw);
            let mut ops = model_ops(&vars, &cons);
            ops.push(Op::Iterate { max: usize::MAX, interrupt: None });
            let br = BrancherSpec::random_builtin(rng);
            let mut knobs = Knobs::random(rng);
            if rng.chance(0.6) {
                // a regime with a termination argument, so that a livelock is a verdict
                knobs.uip = true;
                knobs.limit = 4000;
            }
            vec![base_case(prop, "brancher", knobs, br, ops, checks)]
        }
        "C20" => {
            let sw = Swarm::draw(rng, &general_pool(), th);
            let (vars, cons) = gen_model(rng, &sw);
            let mut ops = model_ops(&vars, &cons);
            ops.push(final_solve_op(rng, &vars, &[0, 1, 1, 2, 3, 4]));
            // built-in branchers draw from the solver's seeded generator: the interesting half
            let br = if rng.chance(0.3) { BrancherSpec::random_sched(rng) } else { BrancherSpec::random_builtin(rng) };
            vec![base_case(prop, "twin", Knobs::random(rng), br, ops, checks)]
        }
        other => panic!("no unit generator for {other}"),
    }
}

/// A scheduling-shaped model for C08: several tasks over a horizon of up to ten time points
/// (some already fixed, some with sparse or negative start domains), durations up to four,
/// usages up to three, small capacities, plus coupling side constraints (precedences, start =
/// start + k, clauses over start times) so that one decision moves several mandatory parts.
pub fn gen_scheduling_model(rng: &mut Rng, th: bool) -> (Vec<VarDecl>, Vec<Con>) {
    let n = rng.range(2, if th { 6 } else { 5 }) as usize;
    let horizon = rng.range32(3, 10);
    let shift = if rng.chance(0.25) { -rng.range32(1, 4) } else { 0 };
    // iterate-to-the-end costs one solve per solution (each on a longer clause database), so the
    // assignment space stays small
    let max_space: u128 = if th { 6_000 } else { 2_500 };
    let mut vars: Vec<VarDecl> = vec![];
    let mut space: u128 = 1;
    for _ in 0..n {
        let mut d = match rng.below(10) {
            0 | 1 => {
                let v = shift + rng.range32(0, horizon);
                VarDecl::interval(v, v)
            }
            2 | 3 => {
                let k = rng.range(2, 4) as usize;
                VarDecl::sparse((0..k).map(|_| shift + rng.range32(0, horizon)).collect())
            }
            _ => {
                let lb = shift + rng.range32(0, horizon / 2);
                VarDecl::interval(lb, (lb + rng.range32(1, horizon)).min(shift + horizon))
            }
        };
        if space * d.values.len() as u128 > max_space {
            let v = d.values[0];
            d = VarDecl::interval(v, v);
        }
        space *= d.values.len() as u128;
        vars.push(d);
    }
    let capacity = rng.range32(1, 3);
    let starts: Vec<View> = (0..n).map(|i| if rng.chance(0.9) { View::plain(i) } else { View { var: i, scale: 1, off: rng.range32(-2, 2) } }).collect();
    let durations: Vec<i32> = (0..n).map(|_| if rng.chance(0.08) { 0 } else { rng.range32(1, 4) }).collect();
    let usages: Vec<i32> = (0..n).map(|_| if rng.chance(0.05) { 0 } else { rng.range32(1, capacity.min(3)) }).collect();
    let mut cons = vec![Con::Cumulative { starts, durations, usages, capacity, options: 0 }];
    for _ in 0..rng.range(0, 3) {
        let a = rng.below(n);
        let b = rng.below(n);
        if a == b {
            continue;
        }
        let c = match rng.below(4) {
            // b = a + k
            0 => Con::LinEq(vec![View::plain(a), View { var: b, scale: -1, off: 0 }], -rng.range32(0, 5)),
            // a + d <= b (precedence)
            1 => Con::BinLe(View { var: a, scale: 1, off: rng.range32(1, 3) }, View::plain(b)),
            2 => Con::PredClause(vec![
                Pred { var: a, k: Pk::Eq, val: *rng.pick(&vars[a].values) },
                Pred { var: b, k: *rng.pick(&[Pk::Eq, Pk::Ge, Pk::Le]), val: *rng.pick(&vars[b].values) },
            ]),
            _ => Con::BinNe(View::plain(a), View::plain(b)),
        };
        cons.push(c);
    }
    (vars, cons)
}

/// A small knapsack-like model for C04: item variables, one or two capacity constraints and an
/// objective variable (the last one) defined as a weighted sum, so that optimisation goes through
/// several incumbents and real conflicts.
pub fn gen_knapsack_model(rng: &mut Rng) -> (Vec<VarDecl>, Vec<Con>) {
    let n = rng.range(3, 5) as usize;
    let mut vars: Vec<VarDecl> = (0..n).map(|_| if rng.chance(0.5) { VarDecl::boolean() } else { VarDecl::interval(0, rng.range32(1, 2)) }).collect();
    let mut cons = vec![];
    for _ in 0..rng.range(1, 2) {
        let weights: Vec<View> = (0..n).map(|i| View { var: i, scale: rng.range32(1, 4), off: 0 }).collect();
        let total: i32 = weights.iter().map(|w| w.scale * vars[w.var].ub()).sum();
        cons.push(Con::LinLe(weights, rng.range32(total / 3, (2 * total / 3).max(1))));
    }
    if rng.chance(0.4) {
        let a = rng.below(n);
        let b = (a + 1) % n;
        cons.push(Con::BinNe(View::plain(a), View::plain(b)));
    }
    let mut profit: Vec<View> = (0..n).map(|i| View { var: i, scale: *rng.pick(&[1, 2, 3, 4, -1]), off: 0 }).collect();
    let lo: i32 = profit.iter().map(|t| (t.scale * vars[t.var].lb()).min(t.scale * vars[t.var].ub())).sum();
    let hi: i32 = profit.iter().map(|t| (t.scale * vars[t.var].lb()).max(t.scale * vars[t.var].ub())).sum();
    vars.push(VarDecl::interval(lo, hi));
    profit.push(View { var: n, scale: -1, off: 0 });
    cons.push(Con::LinEq(profit, 0));
    (vars, cons)
}

const BIG: [i64; 12] = [1 << 30, (1 << 30) + 7, (1 << 31) - 1, 715_827_882, 1 << 16, (1 << 16) + 1, 46_341, 46_340, 1 << 20, 3, 1, 0];

fn bigval(rng: &mut Rng) -> i32 {
    let m = *rng.pick(&BIG) + rng.range(-2, 2);
    let m = m.clamp(-(i32::MAX as i64), i32::MAX as i64);
    (if rng.chance(0.5) { -m } else { m }) as i32
}

/// The magnitude swarm of C16: every *declared* quantity (domain bounds, view images of domain
/// values, right-hand sides, coefficients) fits 32 bits - that is what "admitted" means - while
/// sums and products of them do not. Magnitude comes from narrow intervals at large offsets and
/// sparse domains whose values lie within a few units of a large base (a sparse domain with a
/// huge gap never finishes constructing: a cost, not a correctness matter).
pub fn gen_magnitude_model(rng: &mut Rng) -> (Vec<VarDecl>, Vec<Con>) {
    let n = rng.range(2, 4) as usize;
    let mut vars: Vec<VarDecl> = vec![];
    for _ in 0..n {
        let d = match rng.below(4) {
            0 => {
                let base = (bigval(rng) as i64).clamp(-(i32::MAX as i64) + 20, i32::MAX as i64 - 20);
                VarDecl::sparse((0..rng.range(1, 3)).map(|_| (base + rng.range(-8, 8)) as i32).collect())
            }
            1 => {
                let lo = (bigval(rng) as i64).min(i32::MAX as i64 - 3);
                VarDecl::interval(lo as i32, (lo + rng.range(0, 2)) as i32)
            }
            3 => {
                // a domain that ends exactly at a 32-bit limit
                if rng.chance(0.5) {
                    VarDecl::interval(i32::MAX - rng.range32(0, 2), i32::MAX)
                } else {
                    VarDecl::interval(i32::MIN + 1, i32::MIN + 1 + rng.range32(0, 2))
                }
            }
            _ => {
                let lb = rng.range32(-3, 2);
                VarDecl::interval(lb, lb + rng.range32(0, 3))
            }
        };
        vars.push(d);
    }
    let fits = |v: &View, vars: &[VarDecl]| vars[v.var].values.iter().all(|x| v.eval_value(*x).abs() <= i32::MAX as i128);
    let view = |rng: &mut Rng, vars: &[VarDecl]| -> View {
        loop {
            let scale = if rng.chance(0.6) { 1 } else { *rng.pick(&[-1, 2, -2, 3, -3, 1 << 15, 1 << 16]) };
            let off = if rng.chance(0.7) {
                0
            } else if rng.chance(0.5) {
                rng.range32(-3, 3)
            } else {
                bigval(rng)
            };
            let v = View { var: rng.below(vars.len()), scale, off };
            if fits(&v, vars) {
                return v;
            }
        }
    };
    let mut cons = vec![];
    for _ in 0..rng.range(1, 2) {
        let k = rng.range(1, 3) as usize;
        let c = match rng.below(8) {
            0 => Con::LinLe((0..k).map(|_| view(rng, &vars)).collect(), bigval(rng)),
            1 => Con::LinEq((0..k).map(|_| view(rng, &vars)).collect(), bigval(rng)),
            2 => Con::LinNe((0..k).map(|_| view(rng, &vars)).collect(), bigval(rng)),
            3 => Con::Times(view(rng, &vars), view(rng, &vars), view(rng, &vars)),
            4 => {
                let y = view(rng, &vars);
                if vars[y.var].values.iter().any(|x| y.eval_value(*x) == 0) {
                    continue;
                }
                Con::Div(view(rng, &vars), y, view(rng, &vars))
            }
            5 => Con::Abs(view(rng, &vars), view(rng, &vars)),
            6 => Con::Max((0..k.min(2)).map(|_| view(rng, &vars)).collect(), view(rng, &vars)),
            _ => {
                // element with index / array / rhs sharing a variable is an open finding (KF-006)
                let c = Con::Element(View::plain(rng.below(vars.len())), (0..k.min(2)).map(|_| view(rng, &vars)).collect(), view(rng, &vars));
                if c.has_alias() {
                    continue;
                }
                c
            }
        };
        cons.push(c);
    }
    (vars, cons)
}

/// K2: an operation history on one solver.
pub fn gen_history(prop: &str, tier: Tier, rng: &mut Rng, checks: Checks) -> Case {
    let th = thorough(tier);
    let mut sw = Swarm::draw(rng, &general_pool(), th);
    sw.max_space = 3_000;
    let mut vars: Vec<VarDecl> = vec![];
    let mut ops: Vec<Op> = vec![];
    let n0 = rng.range(1, 3) as usize;
    for _ in 0..n0 {
        let d = gen_domain(rng, 4);
        vars.push(d.clone());
        ops.push(Op::AddVar(d));
    }
    if sw.reif_rate > 0.0 && !vars.iter().any(|v| v.is_bool()) {
        vars.push(VarDecl::boolean());
        ops.push(Op::AddVar(VarDecl::boolean()));
    }
    let len = rng.range(3, if th { 12 } else { 9 }) as usize;
    let allow_sat_unsat = rng.chance(0.1);
    for _ in 0..len {
        let space: u128 = vars.iter().map(|v| v.values.len() as u128).product();
        let op = match rng.below(12) {
            0 | 1 => {
                if vars.len() >= 5 || space * 4 > sw.max_space {
                    Op::Bounds
                } else {
                    let d = gen_domain(rng, 4);
                    vars.push(d.clone());
                    Op::AddVar(d)
                }
            }
            2..=5 => {
                let mut g = ModelGen { rng, sw: &sw, vars: vars.clone(), planted: None };
                match g.constraint() {
                    Some(c) => Op::Post(c),
                    None => Op::Bounds,
                }
            }
            6 => Op::Satisfy { interrupt: if rng.chance(0.25) { Some(rng.range(0, 6) as u64) } else { None } },
            7 => Op::Assume { preds: gen_assumptions(rng, &vars, 3), core: rng.chance(0.6), interrupt: if rng.chance(0.2) { Some(rng.range(0, 6) as u64) } else { None } },
            8 => Op::Iterate { max: if rng.chance(0.3) { usize::MAX } else { rng.range(1, 4) as usize }, interrupt: None },
            9 => Op::Optimise { obj: gen_view(rng, vars.len(), true), minimise: rng.chance(0.5), sat_unsat: allow_sat_unsat && rng.chance(0.5), interrupt: None },
            10 => Op::Satisfy { interrupt: None },
            _ => Op::Bounds,
        };
        ops.push(op);
    }
    let br = if rng.chance(0.75) { BrancherSpec::random_sched(rng) } else { BrancherSpec::random_builtin(rng) };
    base_case(prop, "history", Knobs::random(rng), br, ops, checks)
}

fn sample_of(case: &Case, out: &Outcome) -> J {
    J::obj(vec![
        ("case", case.to_json()),
        ("trace_id", J::s(&format!("{:016x}", out.trace))),
        ("polls", J::u(out.stats.polls)),
        ("decisions", J::u(out.stats.decisions)),
        ("learned_nogoods", J::u(out.stats.learned)),
        ("solutions_checked", J::u(out.stats.solutions)),
    ])
}

/// Runs unit `idx` of the property's workload; everything is derived from `seed`.
pub fn run_unit(prop: &str, tier: Tier, seed: u64, want_sample: bool) -> UnitResult {
    let mut rng = Rng::new(seed);
    let mut res = UnitResult::default();
    match prop {
        "C11" => run_unit_interrupt_sweep("C11", tier, &mut rng, want_sample, &mut res, false),
        // a slice of C10: posting after a call that returned Unknown, for every poll index
        "C10" if rng.chance(0.12) => run_unit_interrupt_sweep("C10", tier, &mut rng, want_sample, &mut res, true),
        "C06" => {
            let c = crate::proofcase::generate(prop, &mut rng, thorough(tier));
            absorb_any(&mut res, crate::anycase::AnyCase::Proof(c), want_sample);
        }
        // a slice of C07 and C18 (and smaller ones of C01, C02): models far beyond the enumerator (implication chains hundreds of
        // propagations deep) with an analytic reference, under several configurations
        "C07" | "C02" | "C18" | "C01" | "C03" if rng.chance(match prop { "C07" => 0.3, "C18" => 0.3, "C01" => 0.25, _ => 0.08 }) || std::env::var("VERIF_DEEP_ONLY").is_ok() => {
            let c = crate::deep::DeepCase::generate(prop, &mut rng, thorough(tier));
            absorb_any(&mut res, crate::anycase::AnyCase::Deep(c), want_sample);
        }
        "C19" => {
            let c = crate::streams::DrcpCase::generate(prop, &mut rng);
            absorb_any(&mut res, crate::anycase::AnyCase::Drcp(c), want_sample);
        }
        "C14" => {
            // the parser under every chunking (cheap) and, in a slice, the binary end to end:
            // verdict, model line, DRAT proof
            if rng.chance(0.03) {
                let c = crate::cli::CliCase::generate_cnf(prop, &mut rng, false);
                absorb_any(&mut res, crate::anycase::AnyCase::Cli(c), want_sample);
            } else {
                let c = crate::dimacs_stream::DimacsCase::generate(prop, &mut rng);
                absorb_any(&mut res, crate::anycase::AnyCase::Dimacs(c), want_sample);
            }
        }
        "C15" => {
            let c = crate::cli::CliCase::generate_wcnf(prop, &mut rng, false);
            absorb_any(&mut res, crate::anycase::AnyCase::Cli(c), want_sample);
        }
        "C13" => {
            let c = crate::cli::CliCase::generate_fzn(prop, &mut rng, false);
            absorb_any(&mut res, crate::anycase::AnyCase::Cli(c), want_sample);
        }
        "C20" if rng.chance(0.12) => {
            // TwinRun on the binary: same file, flags and seed twice under perturbed ambient
            // conditions; stdout (minus wall-clock statistics) and proof files must be identical
            let c = match rng.below(3) {
                0 => crate::cli::CliCase::generate_cnf(prop, &mut rng, true),
                1 => crate::cli::CliCase::generate_wcnf(prop, &mut rng, true),
                _ => crate::cli::CliCase::generate_fzn(prop, &mut rng, true),
            };
            absorb_any(&mut res, crate::anycase::AnyCase::Cli(c), want_sample);
        }
        _ => {
            let cases = gen_unit(prop, tier, &mut rng);
            for case in cases {
                let out = check_case(&case);
                absorb(&mut res, &case, out, want_sample);
                if res.violation.is_some() {
                    break;
                }
            }
        }
    }
    res
}

pub fn absorb_any(res: &mut UnitResult, case: crate::anycase::AnyCase, want_sample: bool) {
    if crate::exec::ANNOUNCE.with(|a| a.get()) && !matches!(case, crate::anycase::AnyCase::Lib(_)) {
        use std::io::Write;
        println!("A {}", case.to_json().to_string());
        let _ = std::io::stdout().flush();
    }
    let out = case.check();
    res.cases += 1;
    res.traces.push((out.trace, out.nontrivial()));
    merge_stats(&mut res.stats, &out.stats);
    if want_sample && res.sample.is_none() && out.nontrivial() {
        res.sample = Some(J::obj(vec![("case", case.to_json()), ("simulated_io_calls", J::u(out.stats.polls)), ("faults_fired", J::u(out.stats.faults_fired))]));
    }
    if let Some(v) = out.violation {
        if res.violation.is_none() {
            res.violation = Some((case, v));
        }
    }
}

fn absorb(res: &mut UnitResult, case: &Case, out: Outcome, want_sample: bool) {
    res.cases += 1;
    if res.cases % 16 == 0 {
        // heartbeat for the supervisor's watchdog (units of many cases)
        use std::io::Write;
        println!("H");
        let _ = std::io::stdout().flush();
    }
    res.traces.push((out.trace, out.nontrivial()));
    merge_stats(&mut res.stats, &out.stats);
    if want_sample && res.sample.is_none() && out.nontrivial() {
        res.sample = Some(sample_of(case, &out));
    }
    if let Some(v) = out.violation {
        if res.violation.is_none() {
            res.violation = Some((crate::anycase::AnyCase::Lib(case.clone()), v));
        }
    }
}

/// C11: fault enumeration. The uninterrupted twin gives the number of polls N of the operation;
/// then a fresh identical run is interrupted at every poll index k in 0..N (sampled above 400),
/// and the same solver is asked again with a clock that never fires.
/// The interrupt sweep: one model and operation, the termination condition firing at every poll
/// index in turn, and the same solver asked again afterwards. With `post_between` a further
/// constraint is posted between the interrupted call and the next one (C10: the solver stays
/// usable after a call that returned Unknown).
fn run_unit_interrupt_sweep(prop: &str, tier: Tier, rng: &mut Rng, want_sample: bool, res: &mut UnitResult, post_between: bool) {
    let th = thorough(tier);
    let checks = lib_checks(prop);
    let sw = Swarm::draw(rng, &general_pool(), th);
    let (vars, cons) = gen_model(rng, &sw);
    let mut ops = model_ops(&vars, &cons);
    let n_model_ops = ops.len();
    let op = final_solve_op(rng, &vars, &[0, 1, 1, 2, 3, 4]);
    ops.push(op.clone());
    let between: Option<Con> = if post_between {
        let mut g = ModelGen { rng, sw: &sw, vars: vars.clone(), planted: None };
        g.constraint()
    } else {
        None
    };
    let br = if rng.chance(0.8) { BrancherSpec::random_sched(rng) } else { BrancherSpec::random_builtin(rng) };
    let mut knobs = Knobs::random(rng);
    if matches!(op, Op::Optimise { sat_unsat: false, .. }) && !rng.chance(0.02) {
        knobs.uip = true; // KF-001
    }
    // KF-002: after an interrupted LinearSatUnsat optimisation the solver keeps the bound of the
    // best solution found; every later call is affected. Outside a small slice the solver is not
    // asked again after such an interrupt (the answer at the interrupt itself is still judged).
    let resume = !matches!(op, Op::Optimise { sat_unsat: true, .. }) || rng.chance(0.05);
    let twin = base_case(prop, "interrupt", knobs.clone(), br.clone(), ops.clone(), checks);
    let out = check_case(&twin);
    let n = out.polls_per_op.first().copied().unwrap_or(0);
    let inconclusive = out.stats.inconclusive > 0;
    absorb(res, &twin, out, want_sample);
    if res.violation.is_some() || inconclusive {
        return;
    }
    let cap = if th { 400 } else { 60 };
    let ks: Vec<u64> = if n <= cap {
        (0..n).collect()
    } else {
        let mut ks: Vec<u64> = vec![0, 1, 2, n - 1, n - 2];
        while ks.len() < cap as usize {
            ks.push(rng.range(0, n as i64 - 1) as u64);
        }
        ks.sort();
        ks.dedup();
        ks
    };
    for k in ks {
        let mut ops_k = ops.clone();
        ops_k[n_model_ops].set_interrupt(Some(k));
        // ask the same solver again; for a SAT-UNSAT optimisation the resumed call is the same
        // optimisation, for the others the same operation without a fault
        if let Some(c) = &between {
            ops_k.push(Op::Post(c.clone()));
        }
        if resume {
            ops_k.push(op.clone());
        }
        let case = base_case(prop, "interrupt", knobs.clone(), br.clone(), ops_k, checks);
        let out = check_case(&case);
        absorb(res, &case, out, false);
        if res.violation.is_some() {
            return;
        }
    }
}

// Silence unused warnings for items used only by some workloads.
#[allow(dead_code)]
fn _unused(_: Lit) {}
