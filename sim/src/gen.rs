//! Seeded generators: models, operation histories and swarm configurations. Everything is drawn
//! from the one PRNG of the run, in a fixed order, before anything is executed.
use crate::exec::{Case, Checks, Op};
use crate::ir::{Con, Lit, Pk, Pred, VarDecl, View};
use crate::rng::Rng;
use crate::sched::{BrancherSpec, Knobs};

#[derive(Clone, Copy, Debug, PartialEq, Eq)]
pub enum Kind {
    LinLe,
    LinEq,
    LinNe,
    BinEq,
    BinNe,
    BinLe,
    BinLt,
    Plus,
    Times,
    Div,
    Abs,
    Max,
    Min,
    Element,
    AllDiff,
    BoolLe,
    BoolEq,
    LitClause,
    LitConj,
    PredClause,
    ViewClause,
    Cumulative,
}

pub const ALL_KINDS: [Kind; 22] = [
    Kind::LinLe,
    Kind::LinEq,
    Kind::LinNe,
    Kind::BinEq,
    Kind::BinNe,
    Kind::BinLe,
    Kind::BinLt,
    Kind::Plus,
    Kind::Times,
    Kind::Div,
    Kind::Abs,
    Kind::Max,
    Kind::Min,
    Kind::Element,
    Kind::AllDiff,
    Kind::BoolLe,
    Kind::BoolEq,
    Kind::LitClause,
    Kind::LitConj,
    Kind::PredClause,
    Kind::ViewClause,
    Kind::Cumulative,
];

/// The arithmetic / global kinds without cumulative (which has its own property and findings).
pub const CORE_KINDS: [Kind; 21] = [
    Kind::LinLe,
    Kind::LinEq,
    Kind::LinNe,
    Kind::BinEq,
    Kind::BinNe,
    Kind::BinLe,
    Kind::BinLt,
    Kind::Plus,
    Kind::Times,
    Kind::Div,
    Kind::Abs,
    Kind::Max,
    Kind::Min,
    Kind::Element,
    Kind::AllDiff,
    Kind::BoolLe,
    Kind::BoolEq,
    Kind::LitClause,
    Kind::LitConj,
    Kind::PredClause,
    Kind::ViewClause,
];

/// The swarm configuration of one run: which dimensions are on.
#[derive(Clone, Debug)]
pub struct Swarm {
    pub kinds: Vec<Kind>,
    pub min_vars: usize,
    pub max_vars: usize,
    pub min_cons: usize,
    pub max_cons: usize,
    /// 0: plain variables only, 1: scale +-1 and small offsets, 2: general views
    pub views: u8,
    /// probability that a constraint is wrapped (Half / Reif / Not)
    pub reif_rate: f64,
    /// whether one variable may occur twice inside one constraint
    pub alias: bool,
    /// build the model around a planted solution
    pub planted: bool,
    /// maximal size of the product of the domains
    pub max_space: u128,
    /// cumulative option combination is drawn per constraint from all 144
    pub cumulative_all_options: bool,
    /// tasks with usage > capacity allowed
    pub cumulative_overload: bool,
    pub max_domain: i32,
    /// probability that a Boolean is created with `new_literal_for_predicate` over an earlier
    /// variable
    pub pred_lits: f64,
}

impl Swarm {
    pub fn draw(rng: &mut Rng, pool: &[Kind], thorough: bool) -> Swarm {
        // every run enables a random subset of the kinds so that rare combinations are not drowned
        let mut kinds: Vec<Kind> = pool.iter().copied().filter(|_| rng.chance(0.45)).collect();
        if kinds.is_empty() {
            kinds.push(*rng.pick(pool));
        }
        Swarm {
            kinds,
            min_vars: 1,
            max_vars: if thorough { 6 } else { 5 },
            min_cons: 1,
            max_cons: 5,
            views: *rng.pick(&[0u8, 1, 2, 2]),
            reif_rate: *rng.pick(&[0.0, 0.0, 0.2, 0.5]),
            alias: false,
            planted: rng.chance(0.45),
            max_space: if thorough { 60_000 } else { 12_000 },
            cumulative_all_options: true,
            cumulative_overload: false,
            max_domain: 5,
            pred_lits: *rng.pick(&[0.0, 0.0, 0.0, 0.4, 0.8]),
        }
    }
}

pub fn gen_domain(rng: &mut Rng, max_size: i32) -> VarDecl {
    match rng.below(8) {
        0 | 1 => VarDecl::boolean(),
        2 => {
            // small interval around 0
            let lb = rng.range32(-3, 2);
            VarDecl::interval(lb, lb + rng.range32(0, max_size - 1))
        }
        3 => {
            // negative interval
            let ub = rng.range32(-6, -1);
            VarDecl::interval(ub - rng.range32(0, max_size - 1), ub)
        }
        4 => {
            // sparse with holes
            let n = rng.range(1, max_size as i64) as usize;
            let vals: Vec<i32> = (0..n).map(|_| rng.range32(-5, 7)).collect();
            VarDecl::sparse(vals)
        }
        5 => {
            // singleton or size-2
            let v = rng.range32(-3, 4);
            if rng.chance(0.4) {
                VarDecl::interval(v, v)
            } else if rng.chance(0.5) {
                VarDecl::interval(v, v + 1)
            } else {
                VarDecl::sparse(vec![v, v + rng.range32(2, 4)])
            }
        }
        6 => {
            let lb = rng.range32(0, 3);
            VarDecl::interval(lb, lb + rng.range32(0, max_size - 1))
        }
        _ => {
            // contiguous but created through the sparse constructor
            let lb = rng.range32(-2, 2);
            VarDecl::sparse((lb..=lb + rng.range32(0, max_size - 1)).collect())
        }
    }
}

pub struct ModelGen<'a> {
    pub rng: &'a mut Rng,
    pub sw: &'a Swarm,
    pub vars: Vec<VarDecl>,
    pub planted: Option<Vec<i32>>,
}

impl ModelGen<'_> {
    fn n(&self) -> usize {
        self.vars.len()
    }
    fn bools(&self) -> Vec<usize> {
        (0..self.n()).filter(|i| self.vars[*i].is_bool()).collect()
    }
    fn view_of(&mut self, var: usize) -> View {
        let (scale, off) = match self.sw.views {
            0 => (1, 0),
            1 => (if self.rng.chance(0.7) { 1 } else { -1 }, if self.rng.chance(0.7) { 0 } else { self.rng.range32(-2, 2) }),
            _ => {
                let s = if self.rng.chance(0.5) { 1 } else { *self.rng.pick(&[-1, 2, -2, 3, -3]) };
                let o = if self.rng.chance(0.6) { 0 } else { self.rng.range32(-3, 3) };
                (s, o)
            }
        };
        View { var, scale, off }
    }
    /// `k` views; over distinct variables unless aliasing is enabled (or impossible).
    fn views(&mut self, k: usize) -> Vec<View> {
        let n = self.n();
        let mut out = vec![];
        if !self.sw.alias && k <= n {
            let mut idx: Vec<usize> = (0..n).collect();
            for i in 0..k {
                let j = i + self.rng.below(n - i);
                idx.swap(i, j);
            }
            for i in 0..k {
                let v = self.view_of(idx[i]);
                out.push(v);
            }
        } else {
            for _ in 0..k {
                let var = self.rng.below(n);
                let v = self.view_of(var);
                out.push(v);
            }
        }
        out
    }
    fn lits(&mut self, k: usize) -> Option<Vec<Lit>> {
        let b = self.bools();
        if b.is_empty() {
            return None;
        }
        Some((0..k).map(|_| Lit { var: *self.rng.pick(&b), pos: self.rng.chance(0.6) }).collect())
    }
    fn arity(&mut self, lo: usize, hi: usize) -> usize {
        let hi = if self.sw.alias { hi } else { hi.min(self.n()) };
        let lo = lo.min(hi);
        self.rng.range(lo as i64, hi as i64) as usize
    }

    fn base(&mut self, kind: Kind) -> Option<Con> {
        let n = self.n();
        let need = |k: usize| -> bool { self.sw.alias || k <= n };
        Some(match kind {
            Kind::LinLe | Kind::LinEq | Kind::LinNe => {
                let k = self.arity(1, 4);
                let t = self.views(k);
                let rhs = self.rng.range32(-6, 6);
                match kind {
                    Kind::LinLe => Con::LinLe(t, rhs),
                    Kind::LinEq => Con::LinEq(t, rhs),
                    _ => Con::LinNe(t, rhs),
                }
            }
            Kind::BinEq | Kind::BinNe | Kind::BinLe | Kind::BinLt | Kind::Abs => {
                if !need(2) {
                    return None;
                }
                let v = self.views(2);
                match kind {
                    Kind::BinEq => Con::BinEq(v[0], v[1]),
                    Kind::BinNe => Con::BinNe(v[0], v[1]),
                    Kind::BinLe => Con::BinLe(v[0], v[1]),
                    Kind::BinLt => Con::BinLt(v[0], v[1]),
                    _ => Con::Abs(v[0], v[1]),
                }
            }
            Kind::Plus | Kind::Times | Kind::Div => {
                if !need(3) {
                    return None;
                }
                let v = self.views(3);
                match kind {
                    Kind::Plus => Con::Plus(v[0], v[1], v[2]),
                    Kind::Times => Con::Times(v[0], v[1], v[2]),
                    _ => {
                        // documented precondition: the denominator's domain excludes 0
                        let y = v[1];
                        if self.vars[y.var].values.iter().any(|x| y.eval_value(*x) == 0) {
                            return None;
                        }
                        Con::Div(v[0], y, v[2])
                    }
                }
            }
            Kind::Max | Kind::Min => {
                if !need(2) {
                    return None;
                }
                let k = self.arity(2, 4);
                let mut v = self.views(k);
                let y = v.pop().unwrap();
                if kind == Kind::Max {
                    Con::Max(v, y)
                } else {
                    Con::Min(v, y)
                }
            }
            Kind::Element => {
                if !need(3) {
                    return None;
                }
                let k = self.arity(3, 5);
                let mut v = self.views(k);
                let i = v.pop().unwrap();
                let e = v.pop().unwrap();
                Con::Element(i, v, e)
            }
            Kind::AllDiff => {
                if !need(2) {
                    return None;
                }
                let k = self.arity(2, 4);
                Con::AllDiff(self.views(k))
            }
            Kind::BoolLe => {
                let k = self.rng.range(1, 3) as usize;
                let ls = self.lits(k)?;
                let w: Vec<i32> = (0..k).map(|_| *self.rng.pick(&[1, 1, 2, -1, 3])).collect();
                Con::BoolLe(w, ls, self.rng.range32(-1, 3))
            }
            Kind::BoolEq => {
                let k = self.rng.range(1, 3) as usize;
                let ls = self.lits(k)?;
                let w: Vec<i32> = (0..k).map(|_| *self.rng.pick(&[1, 1, 2, -1, 3])).collect();
                Con::BoolEq(w, ls, self.rng.below(n))
            }
            Kind::LitClause => {
                let k = self.rng.range(1, 3) as usize;
                Con::LitClause(self.lits(k)?)
            }
            Kind::LitConj => {
                let k = self.rng.range(1, 2) as usize;
                Con::LitConj(self.lits(k)?)
            }
            Kind::PredClause => {
                let k = self.rng.range(1, 3) as usize;
                // clauses whose literals are all equalities (or all disequalities) over interior
                // values are watched through one kind of watcher only; they get their own share
                match self.rng.below(5) {
                    0 | 1 => Con::PredClause(
                        (0..k)
                            .map(|_| {
                                let var = self.rng.below(n);
                                Pred { var, k: Pk::Eq, val: *self.rng.pick(&self.vars[var].values) }
                            })
                            .collect(),
                    ),
                    2 => Con::PredClause(
                        (0..k)
                            .map(|_| {
                                let var = self.rng.below(n);
                                Pred { var, k: Pk::Ne, val: *self.rng.pick(&self.vars[var].values) }
                            })
                            .collect(),
                    ),
                    _ => Con::PredClause((0..k).map(|_| self.pred()).collect()),
                }
            }
            Kind::ViewClause => {
                let k = self.rng.range(1, 3) as usize;
                let views = (0..k).map(|_| self.rng.below(n)).collect::<Vec<_>>();
                Con::ViewClause(
                    views
                        .into_iter()
                        .map(|var| {
                            let scale = *self.rng.pick(&[1, -1, 2, -2, 3, -3]);
                            let off = self.rng.range32(-3, 3);
                            let view = View { var, scale, off };
                            // values on and off the image of the view (e.g. [2x == 3])
                            let x = *self.rng.pick(&self.vars[var].values);
                            let val = view.eval_value(x) as i32 + self.rng.range32(-1, 1);
                            (view, *self.rng.pick(&Pk::ALL), val)
                        })
                        .collect(),
                )
            }
            Kind::Cumulative => {
                let k = self.arity(1, 4);
                let starts = self.views(k);
                let capacity = self.rng.range32(0, 5);
                let durations: Vec<i32> = (0..k).map(|_| self.rng.range32(0, 4)).collect();
                let lim = if self.sw.cumulative_overload { 5 } else { capacity };
                let usages: Vec<i32> = (0..k).map(|_| self.rng.range32(0, lim.max(0))).collect();
                let options = if self.sw.cumulative_all_options { self.rng.below(144) as u32 } else { 98 };
                Con::Cumulative { starts, durations, usages, capacity, options }
            }
        })
    }

    pub fn pred(&mut self) -> Pred {
        let var = self.rng.below(self.n());
        let d = &self.vars[var];
        let val = self.rng.range32(d.lb() - 1, d.ub() + 1);
        Pred { var, k: *self.rng.pick(&Pk::ALL), val }
    }

    /// One constraint (possibly wrapped), consistent with the planted solution if there is one.
    pub fn constraint(&mut self) -> Option<Con> {
        for _ in 0..30 {
            let kind = *self.rng.pick(&self.sw.kinds);
            let Some(mut c) = self.base(kind) else { continue };
            if self.rng.chance(self.sw.reif_rate) && kind != Kind::PredClause && kind != Kind::ViewClause {
                let bools = self.bools();
                let negatable = c.negatable();
                let roll = self.rng.below(4);
                if roll == 0 && negatable {
                    c = Con::Not(Box::new(c));
                } else if !bools.is_empty() {
                    // the reification literal may also occur inside the constraint only when aliasing is on
                    let scope = c.scope();
                    let cands: Vec<usize> = bools.iter().copied().filter(|b| self.sw.alias || !scope.contains(b)).collect();
                    if let Some(&r) = cands.get(self.rng.below(cands.len().max(1))) {
                        let l = Lit { var: r, pos: self.rng.chance(0.7) };
                        let inner = if negatable && self.rng.chance(0.25) { Con::Not(Box::new(c)) } else { c };
                        c = if negatable && roll >= 2 { Con::Reif(Box::new(inner), l) } else { Con::Half(Box::new(inner), l) };
                    }
                }
            }
            if let Some(p) = &self.planted {
                if !c.holds(p) {
                    // repair the cheap cases, otherwise retry
                    let fixed = match &c {
                        Con::LinLe(t, _) => Some(Con::LinLe(t.clone(), (t.iter().map(|v| v.eval(p)).sum::<i128>() as i32).saturating_add(self.rng.range32(0, 2)))),
                        Con::LinEq(t, _) => Some(Con::LinEq(t.clone(), t.iter().map(|v| v.eval(p)).sum::<i128>() as i32)),
                        _ => None,
                    };
                    match fixed {
                        Some(f) if f.holds(p) => c = f,
                        _ => continue,
                    }
                }
            }
            return Some(c);
        }
        None
    }
}

/// Variables and constraints of one model.
pub fn gen_model(rng: &mut Rng, sw: &Swarm) -> (Vec<VarDecl>, Vec<Con>) {
    let nv = rng.range(sw.min_vars as i64, sw.max_vars as i64) as usize;
    let mut vars: Vec<VarDecl> = vec![];
    let mut space: u128 = 1;
    for _ in 0..nv {
        let mut d = gen_domain(rng, sw.max_domain);
        if space * d.values.len() as u128 > sw.max_space {
            d = VarDecl::boolean();
            if space * 2 > sw.max_space {
                break;
            }
        }
        space *= d.values.len() as u128;
        vars.push(d);
    }
    // reification needs a Boolean
    if sw.reif_rate > 0.0 && !vars.iter().any(|v| v.is_bool()) {
        vars.push(VarDecl::boolean());
    }
    // literals that stand for a predicate over an earlier variable
    if sw.pred_lits > 0.0 {
        for i in 1..vars.len() {
            if vars[i].is_bool() && rng.chance(sw.pred_lits) {
                let var = rng.below(i);
                let d = &vars[var];
                let val = match rng.below(6) {
                    0 => d.lb() - 1,
                    1 => d.ub() + 1,
                    _ => *rng.pick(&d.values),
                };
                vars[i] = VarDecl::linked(Pred { var, k: *rng.pick(&Pk::ALL), val });
            }
        }
    }
    let planted = if sw.planted {
        let mut p: Vec<i32> = vec![];
        for v in &vars {
            let x = match &v.link {
                Some(l) => l.holds(&p) as i32,
                None => *rng.pick(&v.values),
            };
            p.push(x);
        }
        Some(p)
    } else {
        None
    };
    let nc = rng.range(sw.min_cons as i64, sw.max_cons as i64) as usize;
    let mut g = ModelGen { rng, sw, vars, planted };
    let mut cons = vec![];
    for _ in 0..nc {
        if let Some(c) = g.constraint() {
            cons.push(c);
        }
    }
    (g.vars, cons)
}

pub fn model_ops(vars: &[VarDecl], cons: &[Con]) -> Vec<Op> {
    let mut ops: Vec<Op> = vars.iter().map(|v| Op::AddVar(v.clone())).collect();
    ops.extend(cons.iter().map(|c| Op::Post(c.clone())));
    ops
}

pub fn gen_assumptions(rng: &mut Rng, vars: &[VarDecl], max: usize) -> Vec<Pred> {
    let k = rng.range(0, max as i64) as usize;
    let mut out: Vec<Pred> = vec![];
    for _ in 0..k {
        let var = rng.below(vars.len());
        let d = &vars[var];
        let p = match rng.below(10) {
            // directly contradictory with an earlier assumption
            0 if !out.is_empty() => out[rng.below(out.len())].negate(),
            // a duplicate
            1 if !out.is_empty() => out[rng.below(out.len())],
            // outside of the domain (root-false or root-true)
            2 => Pred { var, k: *rng.pick(&Pk::ALL), val: if rng.chance(0.5) { d.lb() - 1 } else { d.ub() + 1 } },
            _ => Pred { var, k: *rng.pick(&Pk::ALL), val: *rng.pick(&d.values) },
        };
        out.push(p);
    }
    out
}

pub fn gen_view(rng: &mut Rng, nvars: usize, general: bool) -> View {
    let var = rng.below(nvars);
    if !general || rng.chance(0.4) {
        View::plain(var)
    } else {
        View { var, scale: *rng.pick(&[1, -1, 2, -2, 3]), off: rng.range32(-3, 3) }
    }
}

pub const DEFAULT_BUDGET: u64 = 200_000;

pub fn base_case(prop: &str, scen: &str, knobs: Knobs, brancher: BrancherSpec, ops: Vec<Op>, checks: Checks) -> Case {
    let liveness = knobs.terminates();
    Case { prop: prop.to_string(), scen: scen.to_string(), knobs, brancher, ops, budget: DEFAULT_BUDGET, liveness, checks }
}

pub fn default_checks() -> Checks {
    Checks { expl: false, learned: false, decision: false, panic_violation: true, bounds: true }
}
