//! Greedy delta-debugging of a failing case while the same failure class persists.
use crate::exec::{Case, Op, Violation};
use crate::ir::{Con, Lit, Pred, VarDecl, VarKind, View};
use crate::sched::{BrancherSpec, Knobs};

fn map_views(c: &Con, f: &dyn Fn(&View) -> View) -> Con {
    let vs = |x: &Vec<View>| x.iter().map(f).collect::<Vec<_>>();
    match c {
        Con::LinLe(t, r) => Con::LinLe(vs(t), *r),
        Con::LinEq(t, r) => Con::LinEq(vs(t), *r),
        Con::LinNe(t, r) => Con::LinNe(vs(t), *r),
        Con::BinEq(x, y) => Con::BinEq(f(x), f(y)),
        Con::BinNe(x, y) => Con::BinNe(f(x), f(y)),
        Con::BinLe(x, y) => Con::BinLe(f(x), f(y)),
        Con::BinLt(x, y) => Con::BinLt(f(x), f(y)),
        Con::Plus(x, y, z) => Con::Plus(f(x), f(y), f(z)),
        Con::Times(x, y, z) => Con::Times(f(x), f(y), f(z)),
        Con::Div(x, y, z) => Con::Div(f(x), f(y), f(z)),
        Con::Abs(x, y) => Con::Abs(f(x), f(y)),
        Con::Max(xs, y) => Con::Max(vs(xs), f(y)),
        Con::Min(xs, y) => Con::Min(vs(xs), f(y)),
        Con::Element(i, xs, e) => Con::Element(f(i), vs(xs), f(e)),
        Con::AllDiff(xs) => Con::AllDiff(vs(xs)),
        Con::Cumulative { starts, durations, usages, capacity, options } => {
            Con::Cumulative { starts: vs(starts), durations: durations.clone(), usages: usages.clone(), capacity: *capacity, options: *options }
        }
        Con::ViewClause(ps) => Con::ViewClause(ps.iter().map(|(v, k, val)| (f(v), *k, *val)).collect()),
        Con::Not(c) => Con::Not(Box::new(map_views(c, f))),
        Con::Half(c, l) => Con::Half(Box::new(map_views(c, f)), *l),
        Con::Reif(c, l) => Con::Reif(Box::new(map_views(c, f)), *l),
        other => other.clone(),
    }
}

fn map_vars(c: &Con, f: &dyn Fn(usize) -> usize) -> Con {
    let fl = |l: &Lit| Lit { var: f(l.var), pos: l.pos };
    let c2 = map_views(c, &|v: &View| View { var: f(v.var), scale: v.scale, off: v.off });
    match c2 {
        Con::BoolLe(w, b, r) => Con::BoolLe(w, b.iter().map(fl).collect(), r),
        Con::BoolEq(w, b, x) => Con::BoolEq(w, b.iter().map(fl).collect(), f(x)),
        Con::LitClause(ls) => Con::LitClause(ls.iter().map(fl).collect()),
        Con::LitConj(ls) => Con::LitConj(ls.iter().map(fl).collect()),
        Con::PredClause(ps) => Con::PredClause(ps.iter().map(|p| Pred { var: f(p.var), k: p.k, val: p.val }).collect()),
        Con::Not(c) => Con::Not(Box::new(map_vars(&c, f))),
        Con::Half(c, l) => Con::Half(Box::new(map_vars(&c, f)), fl(&l)),
        Con::Reif(c, l) => Con::Reif(Box::new(map_vars(&c, f)), fl(&l)),
        other => other,
    }
}

fn op_mentions(op: &Op, var: usize) -> bool {
    match op {
        Op::Post(c) => c.scope().contains(&var),
        Op::AddVar(d) => d.link.is_some_and(|p| p.var == var),
        Op::Assume { preds, .. } => preds.iter().any(|p| p.var == var),
        Op::Optimise { obj, .. } => obj.var == var,
        _ => false,
    }
}

/// Removes the `k`-th declared variable if no op mentions it; renumbers the others.
fn remove_var(case: &Case, k: usize) -> Option<Case> {
    if case.ops.iter().any(|o| op_mentions(o, k)) {
        return None;
    }
    if let BrancherSpec::Script(ps) = &case.brancher {
        if ps.iter().any(|p| p.var == k) {
            return None;
        }
    }
    let f = |v: usize| if v > k { v - 1 } else { v };
    let mut out = case.clone();
    out.ops.clear();
    let mut seen = 0usize;
    for op in &case.ops {
        match op {
            Op::AddVar(d) => {
                if seen != k {
                    let mut d = d.clone();
                    if let Some(p) = d.link.as_mut() {
                        p.var = f(p.var);
                    }
                    out.ops.push(Op::AddVar(d));
                }
                seen += 1;
            }
            Op::Post(c) => out.ops.push(Op::Post(map_vars(c, &f))),
            Op::Assume { preds, core, interrupt } => {
                out.ops.push(Op::Assume { preds: preds.iter().map(|p| Pred { var: f(p.var), k: p.k, val: p.val }).collect(), core: *core, interrupt: *interrupt })
            }
            Op::Optimise { obj, minimise, sat_unsat, interrupt } => {
                out.ops.push(Op::Optimise { obj: View { var: f(obj.var), scale: obj.scale, off: obj.off }, minimise: *minimise, sat_unsat: *sat_unsat, interrupt: *interrupt })
            }
            o => out.ops.push(o.clone()),
        }
    }
    if let BrancherSpec::Script(ps) = &case.brancher {
        out.brancher = BrancherSpec::Script(ps.iter().map(|p| Pred { var: f(p.var), k: p.k, val: p.val }).collect());
    }
    Some(out)
}

/// Structural validity: indices in range at the time of the op, literals over Booleans, the
/// documented preconditions (division by a domain excluding 0), non-empty arrays.
/// Structural validity of one constraint over the given variables.
pub fn valid_con(c: &Con, vars: &[VarDecl]) -> bool {
    let probe = Case {
        ops: vars.iter().map(|v| Op::AddVar(v.clone())).chain(std::iter::once(Op::Post(c.clone()))).collect(),
        ..crate::gen::base_case("C00", "probe", crate::sched::Knobs::default(), BrancherSpec::Default, vec![], crate::gen::default_checks())
    };
    valid(&probe)
}

pub fn valid(case: &Case) -> bool {
    let mut vars: Vec<VarDecl> = vec![];
    fn con_ok(c: &Con, vars: &[VarDecl]) -> bool {
        let n = vars.len();
        if c.scope().iter().any(|v| *v >= n) {
            return false;
        }
        let lit_ok = |l: &Lit| vars[l.var].is_bool();
        match c {
            Con::LinLe(t, _) | Con::LinEq(t, _) | Con::LinNe(t, _) => !t.is_empty() && t.iter().all(|v| v.scale != 0),
            Con::Div(_, y, _) => !vars[y.var].values.iter().any(|x| y.eval_value(*x) == 0),
            Con::Max(xs, _) | Con::Min(xs, _) | Con::Element(_, xs, _) => !xs.is_empty(),
            Con::AllDiff(xs) => !xs.is_empty(),
            Con::BoolLe(w, b, _) => w.len() == b.len() && !b.is_empty() && b.iter().all(lit_ok),
            Con::BoolEq(w, b, _) => w.len() == b.len() && !b.is_empty() && b.iter().all(lit_ok),
            Con::LitClause(ls) | Con::LitConj(ls) => !ls.is_empty() && ls.iter().all(lit_ok),
            Con::PredClause(ps) => !ps.is_empty(),
            Con::ViewClause(ps) => !ps.is_empty() && ps.iter().all(|(v, _, _)| v.scale != 0),
            Con::Cumulative { starts, durations, usages, .. } => !starts.is_empty() && starts.len() == durations.len() && starts.len() == usages.len(),
            Con::Not(c) => c.negatable() && con_ok(c, vars),
            Con::Half(c, l) => lit_ok(l) && !matches!(**c, Con::Half(..) | Con::Reif(..) | Con::PredClause(..) | Con::ViewClause(..)) && con_ok(c, vars),
            Con::Reif(c, l) => lit_ok(l) && (c.negatable() || matches!(&**c, Con::Not(_))) && !matches!(**c, Con::Half(..) | Con::Reif(..)) && con_ok(c, vars),
            _ => true,
        }
    }
    for op in &case.ops {
        match op {
            Op::AddVar(d) => {
                if d.values.is_empty() || (d.kind == VarKind::Bool && d.values != vec![0, 1]) {
                    return false;
                }
                if d.kind == VarKind::Interval && (d.ub() - d.lb() + 1) as usize != d.values.len() {
                    return false;
                }
                if let Some(p) = &d.link {
                    if d.kind != VarKind::Bool || p.var >= vars.len() {
                        return false;
                    }
                }
                vars.push(d.clone());
            }
            Op::Post(c) => {
                if !con_ok(c, &vars) {
                    return false;
                }
            }
            Op::Assume { preds, .. } => {
                if preds.iter().any(|p| p.var >= vars.len()) {
                    return false;
                }
            }
            Op::Optimise { obj, .. } => {
                if obj.var >= vars.len() || obj.scale == 0 {
                    return false;
                }
            }
            Op::Satisfy { .. } | Op::Iterate { .. } => {
                if vars.is_empty() {
                    return false;
                }
            }
            Op::Bounds => {}
        }
    }
    true
}

fn simpler_cons(c: &Con) -> Vec<Con> {
    let mut out = vec![];
    match c {
        Con::Not(i) | Con::Half(i, _) | Con::Reif(i, _) => {
            out.push((**i).clone());
            for s in simpler_cons(i) {
                out.push(match c {
                    Con::Not(_) => Con::Not(Box::new(s)),
                    Con::Half(_, l) => Con::Half(Box::new(s), *l),
                    Con::Reif(_, l) => Con::Reif(Box::new(s), *l),
                    _ => unreachable!(),
                });
            }
            if let Con::Reif(i, l) = c {
                out.push(Con::Half(i.clone(), *l));
            }
            return out;
        }
        _ => {}
    }
    // plain views
    let plain = map_views(c, &|v| View::plain(v.var));
    if &plain != c {
        out.push(plain);
        out.push(map_views(c, &|v| View { var: v.var, scale: v.scale, off: 0 }));
        out.push(map_views(c, &|v| View { var: v.var, scale: v.scale.signum(), off: v.off }));
    }
    let drop_each = |xs: &Vec<View>| -> Vec<Vec<View>> {
        (0..xs.len()).filter(|_| xs.len() > 1).map(|i| xs.iter().enumerate().filter(|(j, _)| *j != i).map(|(_, v)| *v).collect()).collect()
    };
    match c {
        Con::LinLe(t, r) | Con::LinEq(t, r) | Con::LinNe(t, r) => {
            let mk = |t: Vec<View>, r: i32| match c {
                Con::LinLe(..) => Con::LinLe(t, r),
                Con::LinEq(..) => Con::LinEq(t, r),
                _ => Con::LinNe(t, r),
            };
            for t2 in drop_each(t) {
                out.push(mk(t2, *r));
            }
            if *r != 0 {
                out.push(mk(t.clone(), 0));
                out.push(mk(t.clone(), r - r.signum()));
            }
        }
        Con::Max(xs, y) => {
            for x2 in drop_each(xs) {
                out.push(Con::Max(x2, *y));
            }
        }
        Con::Min(xs, y) => {
            for x2 in drop_each(xs) {
                out.push(Con::Min(x2, *y));
            }
        }
        Con::Element(i, xs, e) => {
            if xs.len() > 1 {
                out.push(Con::Element(*i, xs[..xs.len() - 1].to_vec(), *e));
            }
        }
        Con::AllDiff(xs) => {
            for x2 in drop_each(xs) {
                out.push(Con::AllDiff(x2));
            }
        }
        Con::PredClause(ps) => {
            for i in 0..ps.len() {
                if ps.len() > 1 {
                    let mut q = ps.clone();
                    q.remove(i);
                    out.push(Con::PredClause(q));
                }
            }
        }
        Con::ViewClause(ps) => {
            for i in 0..ps.len() {
                if ps.len() > 1 {
                    let mut q = ps.clone();
                    q.remove(i);
                    out.push(Con::ViewClause(q));
                }
            }
        }
        Con::LitClause(ls) | Con::LitConj(ls) => {
            for i in 0..ls.len() {
                if ls.len() > 1 {
                    let mut q = ls.clone();
                    q.remove(i);
                    out.push(if matches!(c, Con::LitClause(_)) { Con::LitClause(q) } else { Con::LitConj(q) });
                }
            }
        }
        Con::BoolLe(w, b, r) => {
            for i in 0..b.len() {
                if b.len() > 1 {
                    let (mut w2, mut b2) = (w.clone(), b.clone());
                    w2.remove(i);
                    b2.remove(i);
                    out.push(Con::BoolLe(w2, b2, *r));
                }
            }
        }
        Con::BoolEq(w, b, x) => {
            for i in 0..b.len() {
                if b.len() > 1 {
                    let (mut w2, mut b2) = (w.clone(), b.clone());
                    w2.remove(i);
                    b2.remove(i);
                    out.push(Con::BoolEq(w2, b2, *x));
                }
            }
        }
        Con::Cumulative { starts, durations, usages, capacity, options } => {
            for i in 0..starts.len() {
                if starts.len() > 1 {
                    let (mut s, mut d, mut u) = (starts.clone(), durations.clone(), usages.clone());
                    s.remove(i);
                    d.remove(i);
                    u.remove(i);
                    out.push(Con::Cumulative { starts: s, durations: d, usages: u, capacity: *capacity, options: *options });
                }
            }
            for i in 0..starts.len() {
                if durations[i] > 1 {
                    let mut d = durations.clone();
                    d[i] -= 1;
                    out.push(Con::Cumulative { starts: starts.clone(), durations: d, usages: usages.clone(), capacity: *capacity, options: *options });
                }
                if usages[i] > 1 {
                    let mut u = usages.clone();
                    u[i] -= 1;
                    out.push(Con::Cumulative { starts: starts.clone(), durations: durations.clone(), usages: u, capacity: *capacity, options: *options });
                }
            }
            // never turn a task set without overloaded tasks into one with (a different defect)
            if *capacity > 1 && usages.iter().all(|u| *u < *capacity) {
                out.push(Con::Cumulative { starts: starts.clone(), durations: durations.clone(), usages: usages.clone(), capacity: capacity - 1, options: *options });
            }
        }
        _ => {}
    }
    out
}

fn knob_simplifications(k: &Knobs) -> Vec<Knobs> {
    let d = Knobs::default();
    let mut out = vec![];
    macro_rules! reset {
        ($f:ident) => {
            if k.$f != d.$f {
                let mut k2 = k.clone();
                k2.$f = d.$f;
                out.push(k2);
            }
        };
    }
    if *k != d {
        out.push(d.clone());
        let mut nr = k.clone();
        if !nr.no_restarts {
            nr.no_restarts = true;
            out.push(nr);
        }
    }
    reset!(uip);
    reset!(minimise);
    reset!(no_restarts);
    reset!(seq);
    reset!(base);
    reset!(first);
    reset!(lbd_coef);
    reset!(num_assigned_coef);
    reset!(window);
    reset!(max_activity);
    reset!(decay);
    reset!(limit);
    reset!(lbd_threshold);
    reset!(sort_lbd);
    reset!(solver_seed);
    out
}

/// All one-step simplifications of `case`, cheapest / most aggressive first.
pub fn candidates(case: &Case) -> Vec<Case> {
    let mut out: Vec<Case> = vec![];
    let n = case.ops.len();
    // drop a suffix after the first solve op (keep at least one op)
    for i in (0..n).rev() {
        if !matches!(case.ops[i], Op::AddVar(_)) {
            let mut c = case.clone();
            c.ops.remove(i);
            out.push(c);
        }
    }
    // drop unused variables
    let nv = case.num_vars();
    for k in (0..nv).rev() {
        if let Some(c) = remove_var(case, k) {
            out.push(c);
        }
    }
    // simplify the schedule
    match &case.brancher {
        BrancherSpec::Sched { mode, .. } if *mode != 4 => {
            let mut c = case.clone();
            c.brancher = BrancherSpec::Sched { mode: 4, seed: 0 };
            out.push(c);
            for s in 1..4u64 {
                let mut c = case.clone();
                c.brancher = BrancherSpec::Sched { mode: *mode, seed: s };
                out.push(c);
            }
        }
        BrancherSpec::Sched { .. } => {}
        BrancherSpec::Script(ps) => {
            for i in (0..ps.len()).rev() {
                let mut q = ps.clone();
                q.remove(i);
                let mut c = case.clone();
                c.brancher = BrancherSpec::Script(q);
                out.push(c);
            }
        }
        _ => {
            if !case.checks.decision {
                let mut c = case.clone();
                c.brancher = BrancherSpec::Sched { mode: 4, seed: 0 };
                out.push(c);
            }
        }
    }
    for k in knob_simplifications(&case.knobs) {
        let mut c = case.clone();
        c.liveness = case.liveness && k.terminates();
        c.knobs = k;
        out.push(c);
    }
    // simplify ops
    for (i, op) in case.ops.iter().enumerate() {
        match op {
            Op::Post(con) => {
                for s in simpler_cons(con) {
                    let mut c = case.clone();
                    c.ops[i] = Op::Post(s);
                    out.push(c);
                }
            }
            Op::AddVar(d) => {
                if d.link.is_some() {
                    let mut c = case.clone();
                    c.ops[i] = Op::AddVar(VarDecl::boolean());
                    out.push(c);
                }
                if d.values.len() > 1 && d.kind != VarKind::Bool {
                    for drop in [0, d.values.len() - 1, d.values.len() / 2] {
                        let mut vals = d.values.clone();
                        vals.remove(drop);
                        let contiguous = (vals[vals.len() - 1] - vals[0] + 1) as usize == vals.len();
                        let nd = if contiguous && d.kind == VarKind::Interval { VarDecl::interval(vals[0], vals[vals.len() - 1]) } else { VarDecl::sparse(vals) };
                        let mut c = case.clone();
                        c.ops[i] = Op::AddVar(nd);
                        out.push(c);
                    }
                }
                if d.kind == VarKind::Sparse && (d.ub() - d.lb() + 1) as usize == d.values.len() {
                    let mut c = case.clone();
                    c.ops[i] = Op::AddVar(VarDecl::interval(d.lb(), d.ub()));
                    out.push(c);
                }
            }
            Op::Assume { preds, core, interrupt } => {
                for j in 0..preds.len() {
                    let mut p = preds.clone();
                    p.remove(j);
                    let mut c = case.clone();
                    c.ops[i] = Op::Assume { preds: p, core: *core, interrupt: *interrupt };
                    out.push(c);
                }
                if *core {
                    let mut c = case.clone();
                    c.ops[i] = Op::Assume { preds: preds.clone(), core: false, interrupt: *interrupt };
                    out.push(c);
                }
            }
            Op::Iterate { max, interrupt } => {
                if *max > 1 {
                    for m in [1usize, 2, 3] {
                        if m < *max {
                            let mut c = case.clone();
                            c.ops[i] = Op::Iterate { max: m, interrupt: *interrupt };
                            out.push(c);
                        }
                    }
                }
            }
            Op::Optimise { obj, minimise, sat_unsat, interrupt } => {
                if *obj != View::plain(obj.var) {
                    let mut c = case.clone();
                    c.ops[i] = Op::Optimise { obj: View::plain(obj.var), minimise: *minimise, sat_unsat: *sat_unsat, interrupt: *interrupt };
                    out.push(c);
                }
            }
            _ => {}
        }
        if let Some(k) = op.interrupt() {
            let mut c = case.clone();
            c.ops[i].set_interrupt(None);
            out.push(c);
            if k > 0 {
                for k2 in [0, k / 2, k - 1] {
                    let mut c = case.clone();
                    c.ops[i].set_interrupt(Some(k2));
                    out.push(c);
                }
            }
        }
    }
    out
}

/// Shrinks while `check` keeps failing with the same class. Returns the minimised case, its
/// violation and the number of candidate evaluations.
pub fn shrink(case: &Case, violation: &Violation, check: &mut dyn FnMut(&Case) -> Option<Violation>, max_evals: usize) -> (Case, Violation, usize) {
    let mut best = case.clone();
    let mut best_v = violation.clone();
    let mut evals = 0usize;
    let mut progress = true;
    while progress && evals < max_evals {
        progress = false;
        for cand in candidates(&best) {
            if evals >= max_evals {
                break;
            }
            if cand == best || !valid(&cand) {
                continue;
            }
            evals += 1;
            if let Some(v) = check(&cand) {
                if v.class == best_v.class {
                    best = cand;
                    best_v = v;
                    progress = true;
                    break;
                }
            }
        }
    }
    (best, best_v, evals)
}

/// The same greedy loop over cases of any scenario kind.
pub fn shrink_any(
    case: &crate::anycase::AnyCase,
    violation: &Violation,
    check: &mut dyn FnMut(&crate::anycase::AnyCase) -> Option<Violation>,
    max_evals: usize,
) -> (crate::anycase::AnyCase, Violation, usize) {
    let mut best = case.clone();
    let mut best_v = violation.clone();
    let mut evals = 0usize;
    let mut progress = true;
    while progress && evals < max_evals {
        progress = false;
        for cand in best.candidates() {
            if evals >= max_evals {
                break;
            }
            if cand == best {
                continue;
            }
            evals += 1;
            if let Some(v) = check(&cand) {
                if v.class == best_v.class {
                    best = cand;
                    best_v = v;
                    progress = true;
                    break;
                }
            }
        }
    }
    (best, best_v, evals)
}
