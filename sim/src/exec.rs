//! The history executor: runs an explicit `Case` against the real solver and the reference model
//! in lock-step and evaluates the oracles of DESIGN.md §3.
use std::cell::RefCell;
use std::collections::{BTreeMap, HashSet};
use std::panic::{catch_unwind, AssertUnwindSafe};

use pumpkin_solver::branching::Brancher;
use pumpkin_solver::optimisation::linear_sat_unsat::LinearSatUnsat;
use pumpkin_solver::optimisation::linear_unsat_sat::LinearUnsatSat;
use pumpkin_solver::optimisation::OptimisationDirection;
use pumpkin_solver::predicates::Predicate;
use pumpkin_solver::proof::ProofLog;
use pumpkin_solver::results::solution_iterator::IteratedSolution;
use pumpkin_solver::results::{OptimisationResult, SatisfactionResult, SatisfactionResultUnderAssumptions, Solution, SolutionReference};
use pumpkin_solver::verif_hooks::{self, Event};
use pumpkin_solver::Solver;

use crate::adapter::{self, foreign_pred_value, Binding};
use crate::ir::{assignments_over, Con, Pred, RefModel, VarDecl, View};
use crate::json::J;
use crate::rng::fnv;
use crate::sched::{build_brancher, AnyBrancher, BrancherSpec, FaultClock, Knobs};
use crate::with_brancher;

// ---------------------------------------------------------------------------------------------
// Case
// ---------------------------------------------------------------------------------------------

#[derive(Clone, Debug, PartialEq)]
pub enum Op {
    AddVar(VarDecl),
    Post(Con),
    Satisfy { interrupt: Option<u64> },
    Assume { preds: Vec<Pred>, core: bool, interrupt: Option<u64> },
    /// `max` solutions at most (usize::MAX: until the iterator reports the end)
    Iterate { max: usize, interrupt: Option<u64> },
    Optimise { obj: View, minimise: bool, sat_unsat: bool, interrupt: Option<u64> },
    Bounds,
}

impl Op {
    pub fn name(&self) -> &'static str {
        match self {
            Op::AddVar(_) => "new_var",
            Op::Post(_) => "post",
            Op::Satisfy { .. } => "satisfy",
            Op::Assume { .. } => "assume",
            Op::Iterate { .. } => "iterate",
            Op::Optimise { .. } => "optimise",
            Op::Bounds => "bounds",
        }
    }
    pub fn is_solve(&self) -> bool {
        matches!(self, Op::Satisfy { .. } | Op::Assume { .. } | Op::Iterate { .. } | Op::Optimise { .. })
    }
    pub fn interrupt(&self) -> Option<u64> {
        match self {
            Op::Satisfy { interrupt } | Op::Assume { interrupt, .. } | Op::Iterate { interrupt, .. } | Op::Optimise { interrupt, .. } => *interrupt,
            _ => None,
        }
    }
    pub fn set_interrupt(&mut self, k: Option<u64>) {
        match self {
            Op::Satisfy { interrupt } | Op::Assume { interrupt, .. } | Op::Iterate { interrupt, .. } | Op::Optimise { interrupt, .. } => *interrupt = k,
            _ => {}
        }
    }
    pub fn to_json(&self) -> J {
        let intr = |i: &Option<u64>| match i {
            Some(k) => J::u(*k),
            None => J::Null,
        };
        match self {
            Op::AddVar(v) => J::obj(vec![("op", J::s("new_var")), ("dom", v.to_json())]),
            Op::Post(c) => J::obj(vec![("op", J::s("post")), ("c", c.to_json())]),
            Op::Satisfy { interrupt } => J::obj(vec![("op", J::s("satisfy")), ("interrupt", intr(interrupt))]),
            Op::Assume { preds, core, interrupt } => J::obj(vec![
                ("op", J::s("assume")),
                ("preds", J::Arr(preds.iter().map(|p| p.to_json()).collect())),
                ("core", J::Bool(*core)),
                ("interrupt", intr(interrupt)),
            ]),
            Op::Iterate { max, interrupt } => J::obj(vec![
                ("op", J::s("iterate")),
                ("max", if *max == usize::MAX { J::Null } else { J::u(*max as u64) }),
                ("interrupt", intr(interrupt)),
            ]),
            Op::Optimise { obj, minimise, sat_unsat, interrupt } => J::obj(vec![
                ("op", J::s("optimise")),
                ("obj", obj.to_json()),
                ("minimise", J::Bool(*minimise)),
                ("sat_unsat", J::Bool(*sat_unsat)),
                ("interrupt", intr(interrupt)),
            ]),
            Op::Bounds => J::obj(vec![("op", J::s("bounds"))]),
        }
    }
    pub fn from_json(j: &J) -> Op {
        let intr = || match j.get("interrupt") {
            Some(J::Null) | None => None,
            Some(x) => Some(x.as_u64()),
        };
        match j.at("op").as_str() {
            "new_var" => Op::AddVar(VarDecl::from_json(j.at("dom"))),
            "post" => Op::Post(Con::from_json(j.at("c"))),
            "satisfy" => Op::Satisfy { interrupt: intr() },
            "assume" => Op::Assume { preds: j.at("preds").as_arr().iter().map(Pred::from_json).collect(), core: j.at("core").as_bool(), interrupt: intr() },
            "iterate" => Op::Iterate { max: if j.at("max").is_null() { usize::MAX } else { j.at("max").as_usize() }, interrupt: intr() },
            "optimise" => Op::Optimise { obj: View::from_json(j.at("obj")), minimise: j.at("minimise").as_bool(), sat_unsat: j.at("sat_unsat").as_bool(), interrupt: intr() },
            "bounds" => Op::Bounds,
            other => panic!("unknown op {other}"),
        }
    }
}

/// Which of the hook-based (costly) oracles run, and how a panic is judged.
#[derive(Clone, Copy, Debug, PartialEq, Default)]
pub struct Checks {
    /// I-EXPL on every explanation event
    pub expl: bool,
    /// I-LEARNED on every learned nogood
    pub learned: bool,
    /// I-DECISION on every decision of a built-in brancher
    pub decision: bool,
    /// whether a panic violates the property under check (false: the run is counted as aborted)
    pub panic_violation: bool,
    /// whether I-BOUNDS is evaluated after every op
    pub bounds: bool,
}

#[derive(Clone, Debug, PartialEq)]
pub struct Case {
    pub prop: String,
    pub scen: String,
    pub knobs: Knobs,
    pub brancher: BrancherSpec,
    pub ops: Vec<Op>,
    pub budget: u64,
    /// whether an exhausted step budget is a liveness violation (only with a termination argument)
    pub liveness: bool,
    pub checks: Checks,
}

impl Case {
    pub fn to_json(&self) -> J {
        J::obj(vec![
            ("prop", J::s(&self.prop)),
            ("scen", J::s(&self.scen)),
            ("knobs", self.knobs.to_json()),
            ("brancher", self.brancher.to_json()),
            ("budget", J::u(self.budget)),
            ("liveness", J::Bool(self.liveness)),
            (
                "checks",
                J::obj(vec![
                    ("expl", J::Bool(self.checks.expl)),
                    ("learned", J::Bool(self.checks.learned)),
                    ("decision", J::Bool(self.checks.decision)),
                    ("panic_violation", J::Bool(self.checks.panic_violation)),
                    ("bounds", J::Bool(self.checks.bounds)),
                ]),
            ),
            ("ops", J::Arr(self.ops.iter().map(|o| o.to_json()).collect())),
        ])
    }
    pub fn from_json(j: &J) -> Case {
        let c = j.at("checks");
        Case {
            prop: j.at("prop").as_str().to_string(),
            scen: j.at("scen").as_str().to_string(),
            knobs: Knobs::from_json(j.at("knobs")),
            brancher: BrancherSpec::from_json(j.at("brancher")),
            budget: j.at("budget").as_u64(),
            liveness: j.at("liveness").as_bool(),
            checks: Checks {
                expl: c.at("expl").as_bool(),
                learned: c.at("learned").as_bool(),
                decision: c.at("decision").as_bool(),
                panic_violation: c.at("panic_violation").as_bool(),
                bounds: c.at("bounds").as_bool(),
            },
            ops: j.at("ops").as_arr().iter().map(Op::from_json).collect(),
        }
    }
    pub fn num_vars(&self) -> usize {
        self.ops.iter().filter(|o| matches!(o, Op::AddVar(_))).count()
    }
}

// ---------------------------------------------------------------------------------------------
// Outcome
// ---------------------------------------------------------------------------------------------

#[derive(Clone, Debug, PartialEq)]
pub struct Violation {
    /// The failure class: oracle id + mismatch kind, or PANIC@site. Shrinking preserves it.
    pub class: String,
    pub msg: String,
    pub op_index: usize,
}

#[derive(Clone, Debug, Default)]
pub struct Stats {
    pub polls: u64,
    pub decisions: u64,
    pub learned: u64,
    pub solutions: u64,
    pub solves: u64,
    pub expl_events: u64,
    pub expl_checked: u64,
    pub decisions_checked: u64,
    pub faults_fired: u64,
    pub unknown_after_interrupt: u64,
    pub inconclusive: u64,
    pub aborted: u64,
    pub bound_changes: u64,
    pub states: Vec<u64>,
    pub probes: BTreeMap<String, u64>,
}

#[derive(Clone, Debug)]
pub struct Outcome {
    pub violation: Option<Violation>,
    pub trace: u64,
    pub stats: Stats,
    /// Polls used by each solve op (for the fault enumeration of C11)
    pub polls_per_op: Vec<u64>,
    pub aborted: Option<String>,
}

impl Outcome {
    pub fn nontrivial(&self) -> bool {
        self.stats.learned >= 1 || self.stats.decisions >= 2 || self.stats.bound_changes >= 1
    }
}

struct Trace(u64);
impl Trace {
    fn add(&mut self, x: u64) {
        self.0 ^= x;
        self.0 = self.0.wrapping_mul(0x0000_0100_0000_01b3);
    }
    fn add_i(&mut self, x: i64) {
        self.add(x as u64)
    }
    fn add_s(&mut self, s: &str) {
        self.add(fnv(s.as_bytes()))
    }
}

thread_local! {
    pub static LAST_PANIC: RefCell<Option<(String, String)>> = const { RefCell::new(None) };
    /// When set, every case is printed before it is executed (used to identify a hanging case).
    pub static ANNOUNCE: std::cell::Cell<bool> = const { std::cell::Cell::new(false) };
}

/// Installs a panic hook which records location and message instead of printing.
pub fn install_panic_hook() {
    if std::env::var("VERIF_BACKTRACE").is_ok() {
        return; // development aid: keep the default hook (prints the backtrace)
    }
    std::panic::set_hook(Box::new(|info| {
        let loc = info.location().map(|l| format!("{}:{}", l.file().rsplit("/src/").next().unwrap_or(l.file()), l.line())).unwrap_or_default();
        let msg = if let Some(s) = info.payload().downcast_ref::<&str>() {
            s.to_string()
        } else if let Some(s) = info.payload().downcast_ref::<String>() {
            s.clone()
        } else {
            "<non-string panic>".to_string()
        };
        LAST_PANIC.with(|p| *p.borrow_mut() = Some((loc, msg)));
    }));
}

pub const CONFLICTING_ASSUMPTIONS_MSG: &str = "Conflicting assumptions were provided";

type V<T> = Result<T, Violation>;

struct Exec<'c> {
    case: &'c Case,
    solver: Solver,
    binding: Binding,
    refm: RefModel,
    /// Solutions yielded last by an iteration that was stopped early: the code does not block
    /// them, the documentation says they stay blocked; both readings are accepted.
    maybe_blocked: Vec<Vec<i32>>,
    /// The solver reported the accumulated model infeasible.
    dead: bool,
    brancher: Option<AnyBrancher>,
    brancher_nvars: usize,
    occ: Vec<u32>,
    prev_bounds: Vec<(i32, i32)>,
    trace: Trace,
    stats: Stats,
    cur_op: usize,
    polls_per_op: Vec<u64>,
    seen_expl: HashSet<u64>,
    states: HashSet<u64>,
    inconclusive: bool,
}

fn viol<T>(op: usize, class: &str, msg: String) -> V<T> {
    Err(Violation { class: class.to_string(), msg, op_index: op })
}

impl<'c> Exec<'c> {
    fn new(case: &'c Case) -> Exec<'c> {
        Exec {
            case,
            solver: Solver::with_options(case.knobs.options(ProofLog::default())),
            binding: Binding::default(),
            refm: RefModel::new(),
            maybe_blocked: vec![],
            dead: false,
            brancher: None,
            brancher_nvars: usize::MAX,
            occ: vec![],
            prev_bounds: vec![],
            trace: Trace(0xcbf2_9ce4_8422_2325),
            stats: Stats::default(),
            cur_op: 0,
            polls_per_op: vec![],
            seen_expl: HashSet::new(),
            states: HashSet::new(),
            inconclusive: false,
        }
    }

    /// Records the kind of result of an operation (evidence: what the workload actually reached).
    fn result(&mut self, op: &str, kind: &str) {
        self.trace.add_s(kind);
        *self.stats.probes.entry(format!("result:{op}:{kind}")).or_insert(0) += 1;
    }

    fn is_maybe_blocked(&self, s: &[i32]) -> bool {
        self.maybe_blocked.iter().any(|m| s[..m.len()] == m[..])
    }
    /// The solutions under the reading in which every yielded solution stays blocked.
    fn sols_lo(&self) -> Vec<&Vec<i32>> {
        self.refm.sols.iter().filter(|s| !self.is_maybe_blocked(s)).collect()
    }
    fn lo_is_empty(&self) -> bool {
        !self.refm.sols.iter().any(|s| !self.is_maybe_blocked(s))
    }
    fn in_hi(&self, s: &[i32]) -> bool {
        self.refm.sols.binary_search_by(|probe| probe.as_slice().cmp(s)).is_ok()
    }

    /// Reads a solution through the public API, insisting that every variable is assigned to a
    /// value of its declared domain (H-SOLN, first half).
    fn read_solution(&self, sol: &Solution, what: &str) -> V<Vec<i32>> {
        let mut out = Vec::with_capacity(self.binding.vars.len());
        for (i, d) in self.binding.vars.iter().enumerate() {
            let decl = &self.refm.vars[i];
            let mut found = None;
            let mut count = 0;
            for x in &decl.values {
                let x = *x;
                let d = *d;
                if sol.is_predicate_satisfied(pumpkin_solver::predicate!(d == x)) {
                    found = Some(x);
                    count += 1;
                }
            }
            match (found, count) {
                (Some(x), 1) => out.push(x),
                _ => {
                    return viol(self.cur_op, "H-SOLN:unassigned-or-out-of-domain", format!("{what}: variable x{i} is not assigned to exactly one value of its declared domain {:?}", decl.values));
                }
            }
        }
        Ok(out)
    }

    fn check_solution(&mut self, sol: &Solution, what: &str) -> V<Vec<i32>> {
        let v = self.read_solution(sol, what)?;
        self.stats.solutions += 1;
        for x in &v {
            self.trace.add_i(*x as i64);
        }
        if !self.in_hi(&v) {
            // say which constraint is violated
            let bad = self.refm.cons.iter().position(|c| !c.holds(&v));
            let why = match bad {
                Some(i) => format!("violates constraint #{i} {}", self.refm.cons[i].to_json().to_string()),
                None => "repeats a solution that was blocked by an earlier iteration".to_string(),
            };
            let class = if bad.is_some() { "H-SOLN:non-solution" } else { "H-ENUM:blocked-solution-returned" };
            return viol(self.cur_op, class, format!("{what}: returned assignment {v:?} {why}"));
        }
        Ok(v)
    }

    fn ensure_brancher(&mut self) {
        let n = self.binding.vars.len();
        if self.brancher.is_none() || self.brancher_nvars != n {
            let binding = self.binding.clone();
            let f = move |p: &Pred| binding.pred(p);
            self.brancher = Some(build_brancher(&self.case.brancher, &self.solver, &self.binding.vars, &self.occ, &f));
            self.brancher_nvars = n;
        }
    }

    fn after_clock(&mut self, clock: &FaultClock) -> (bool, bool) {
        self.stats.polls += clock.polls;
        self.polls_per_op.push(clock.polls);
        self.trace.add(clock.polls);
        if clock.fired {
            self.stats.faults_fired += 1;
        }
        if clock.capped {
            // the cap on the whole operation is not a liveness verdict
            self.inconclusive = true;
            self.stats.inconclusive += 1;
            return (true, false);
        }
        (clock.fired, clock.exhausted)
    }

    /// Judges an `Unknown`-like outcome.
    fn judge_unknown(&mut self, fired: bool, exhausted: bool, what: &str) -> V<()> {
        if fired {
            self.stats.unknown_after_interrupt += 1;
            return Ok(());
        }
        if exhausted {
            if self.case.liveness {
                return viol(self.cur_op, "I-STEP:budget-exhausted", format!("{what}: no answer within {} polls under a configuration with a termination argument", self.case.budget));
            }
            self.inconclusive = true;
            self.stats.inconclusive += 1;
            return Ok(());
        }
        viol(self.cur_op, "H-VERDICT:unknown-without-interrupt", format!("{what}: Unknown although the termination condition never fired"))
    }

    // ---- hook events -------------------------------------------------------------------------

    fn pred_holds(&self, p: &Predicate, a: &[i32]) -> bool {
        match self.binding.unpred(p) {
            Some(q) => q.holds(a),
            None => foreign_pred_value(p),
        }
    }

    fn show_pred(&self, p: &Predicate) -> String {
        match self.binding.unpred(p) {
            Some(q) => q.show(),
            None => format!("{p:?}"),
        }
    }

    fn show_preds(&self, ps: &[Predicate]) -> String {
        ps.iter().map(|p| self.show_pred(p)).collect::<Vec<_>>().join(" & ")
    }

    /// Processes the events of one segment; `context` = the solutions every untagged fact may
    /// rely on (accumulated model + the objective bound in force in this segment).
    fn process_events(&mut self, events: &[Event], context: &[Vec<i32>]) -> V<()> {
        for e in events {
            match e {
                Event::Decision { predicate, already_assigned, all_variables_assigned, .. } => {
                    self.stats.decisions += 1;
                    match predicate {
                        Some(p) => {
                            let q = self.binding.unpred(p);
                            if let Some(q) = q {
                                self.trace.add_i(q.var as i64);
                                self.trace.add_i(q.k as i64);
                                self.trace.add_i(q.val as i64);
                            }
                            if self.case.checks.decision {
                                self.stats.decisions_checked += 1;
                                if *already_assigned {
                                    return viol(self.cur_op, "I-DECISION:already-assigned", format!("brancher proposed {} which is already decided", self.show_pred(p)));
                                }
                                if q.is_none() {
                                    return viol(self.cur_op, "I-DECISION:foreign-variable", format!("brancher proposed {p:?} over a variable it is not responsible for"));
                                }
                            }
                        }
                        None => {
                            self.trace.add(0x77);
                            if self.case.checks.decision {
                                self.stats.decisions_checked += 1;
                                if !*all_variables_assigned {
                                    return viol(self.cur_op, "I-DECISION:none-with-unfixed-variables", "brancher proposed nothing although some of its variables are unfixed".to_string());
                                }
                            }
                        }
                    }
                }
                Event::Learned { predicates, .. } => {
                    self.stats.learned += 1;
                    self.trace.add(predicates.len() as u64 + 0x1000);
                    // the order of the predicates is part of the observable behaviour (it is the
                    // order in which a proof would list them and decides the watched predicates)
                    for p in predicates.iter() {
                        self.trace.add_i(p.get_domain().id as i64);
                        self.trace.add_i(p.get_right_hand_side() as i64);
                        self.trace.add(if p.is_lower_bound_predicate() { 1 } else if p.is_upper_bound_predicate() { 2 } else if p.is_equality_predicate() { 3 } else { 4 });
                    }
                    if self.case.checks.learned {
                        if let Some(s) = context.iter().find(|s| predicates.iter().all(|p| self.pred_holds(p, s))) {
                            return viol(
                                self.cur_op,
                                "I-LEARNED:nogood-excludes-solution",
                                format!("learned nogood {} is satisfied by solution {s:?} of the model", self.show_preds(predicates)),
                            );
                        }
                    }
                }
                Event::Propagation { propagator, tag, predicate, reason, facts_hold, lazy, .. } => {
                    self.stats.expl_events += 1;
                    if !self.case.checks.expl {
                        continue;
                    }
                    if !facts_hold {
                        return viol(
                            self.cur_op,
                            &format!("I-EXPL:facts-not-true:{propagator}"),
                            format!("{propagator} propagated {} with {} reason {} containing a fact that does not hold in the state in which the reason is given", self.show_pred(predicate), if *lazy { "lazy" } else { "eager" }, self.show_preds(reason)),
                        );
                    }
                    self.check_implication(propagator, *tag, reason, Some(predicate), context)?;
                }
                Event::Conflict { propagator, tag, reason, facts_hold } => {
                    self.stats.expl_events += 1;
                    if !self.case.checks.expl {
                        continue;
                    }
                    if !facts_hold {
                        return viol(
                            self.cur_op,
                            &format!("I-EXPL:conflict-facts-not-true:{propagator}"),
                            format!("{propagator} reported conflict {} containing a fact that does not hold", self.show_preds(reason)),
                        );
                    }
                    self.check_implication(propagator, *tag, reason, None, context)?;
                }
                Event::AnalysisReason { predicate, reason, facts_hold } => {
                    self.stats.expl_events += 1;
                    if !self.case.checks.expl {
                        continue;
                    }
                    if !facts_hold {
                        return viol(
                            self.cur_op,
                            "I-EXPL:analysis-facts-not-true",
                            format!("reason {} handed to conflict analysis for {} contains a fact that does not hold", self.show_preds(reason), self.show_pred(predicate)),
                        );
                    }
                    self.check_implication("analysis", None, reason, Some(predicate), context)?;
                }
                Event::Mark(_) => {}
            }
        }
        Ok(())
    }

    /// Sufficiency of a reason: over the scope of the tagged constraint and the declared
    /// domains (untagged: over the context solutions), constraint & reason => predicate.
    fn check_implication(&mut self, who: &str, tag: Option<u32>, reason: &[Predicate], predicate: Option<&Predicate>, context: &[Vec<i32>]) -> V<()> {
        // memoise identical obligations within a run
        let mut key = format!("{who}|{tag:?}|");
        for p in reason {
            key.push_str(&format!("{p:?};"));
        }
        key.push_str(&format!("=>{predicate:?}|{}", if tag.is_none() { context.len() } else { 0 }));
        if !self.seen_expl.insert(fnv(key.as_bytes())) {
            return Ok(());
        }
        self.stats.expl_checked += 1;
        let counter = match tag {
            Some(t) if (t as usize) >= 1 && (t as usize) <= self.refm.cons.len() => {
                let con = &self.refm.cons[t as usize - 1];
                let mut scope = con.scope();
                for p in reason.iter().chain(predicate) {
                    if let Some(q) = self.binding.unpred(p) {
                        scope.push(q.var);
                    }
                }
                scope.sort();
                scope.dedup();
                let all = assignments_over(&self.refm.vars, &scope);
                all.into_iter().find(|a| con.holds(a) && reason.iter().all(|p| self.pred_holds(p, a)) && predicate.is_none_or(|p| !self.pred_holds(p, a)))
            }
            _ => context.iter().find(|a| reason.iter().all(|p| self.pred_holds(p, a)) && predicate.is_none_or(|p| !self.pred_holds(p, a))).cloned(),
        };
        if let Some(a) = counter {
            let what = match predicate {
                Some(p) => format!("propagation of {}", self.show_pred(p)),
                None => "conflict".to_string(),
            };
            let basis = match tag {
                Some(t) => format!("constraint #{} {}", t - 1, self.refm.cons[t as usize - 1].to_json().to_string()),
                None => "the model".to_string(),
            };
            let kind = if predicate.is_some() { "propagation-not-implied" } else { "conflict-not-implied" };
            return viol(
                self.cur_op,
                &format!("I-EXPL:{kind}:{who}"),
                format!("{who}: {what} with reason {} does not follow from {basis}: assignment {a:?} satisfies constraint and reason", self.show_preds(reason)),
            );
        }
        Ok(())
    }

    fn drain_and_check(&mut self, context: Option<&[Vec<i32>]>) -> V<()> {
        let events = verif_hooks::drain();
        match context {
            Some(c) => self.process_events(&events, c),
            None => {
                let ctx = std::mem::take(&mut self.refm.sols);
                let r = self.process_events(&events, &ctx);
                self.refm.sols = ctx;
                r
            }
        }
    }

    // ---- ops ---------------------------------------------------------------------------------

    fn bounds_oracle(&mut self) -> V<()> {
        if self.dead || !self.case.checks.bounds {
            return Ok(());
        }
        let lo_empty = self.lo_is_empty();
        let mut state = 0xcbf2_9ce4_8422_2325u64;
        for i in 0..self.binding.vars.len() {
            let d = self.binding.vars[i];
            let lb = self.solver.lower_bound(&d);
            let ub = self.solver.upper_bound(&d);
            state = (state ^ (lb as u64)).wrapping_mul(0x100_0000_01b3);
            state = (state ^ (ub as u64)).wrapping_mul(0x100_0000_01b3);
            let decl = &self.refm.vars[i];
            if lb < decl.lb() || ub > decl.ub() {
                return viol(self.cur_op, "I-BOUNDS:outside-declared-domain", format!("x{i}: reported bounds [{lb},{ub}] leave the declared domain [{},{}]", decl.lb(), decl.ub()));
            }
            if i < self.prev_bounds.len() {
                let (plb, pub_) = self.prev_bounds[i];
                if lb < plb || ub > pub_ {
                    return viol(self.cur_op, "I-BOUNDS:not-monotone", format!("x{i}: reported bounds went from [{plb},{pub_}] to [{lb},{ub}]"));
                }
                if lb != plb || ub != pub_ {
                    self.stats.bound_changes += 1;
                }
                self.prev_bounds[i] = (lb, ub);
            } else {
                self.prev_bounds.push((lb, ub));
            }
            if !lo_empty {
                for s in self.refm.sols.iter() {
                    if (s[i] < lb || s[i] > ub) && !self.is_maybe_blocked(s) {
                        return viol(self.cur_op, "I-BOUNDS:excludes-solution", format!("x{i}: reported bounds [{lb},{ub}] exclude the solution {s:?}"));
                    }
                }
            }
            if let Some(l) = self.binding.lits[i] {
                if let Some(b) = self.solver.get_literal_value(l) {
                    if let Some(s) = self.refm.sols.iter().find(|s| (s[i] == 1) != b && !self.is_maybe_blocked(s)) {
                        return viol(self.cur_op, "I-BOUNDS:literal-value-excludes-solution", format!("x{i}: literal reported {b} but solution {s:?} exists"));
                    }
                }
            }
        }
        self.states.insert(state);
        self.trace.add(state);
        Ok(())
    }

    fn op_satisfy<B: Brancher>(&mut self, b: &mut B, interrupt: Option<u64>) -> V<()> {
        let mut clock = FaultClock::new(interrupt, self.case.budget);
        let res = self.solver.satisfy(b, &mut clock);
        let (fired, exhausted) = self.after_clock(&clock);
        self.stats.solves += 1;
        let r = match res {
            SatisfactionResult::Satisfiable(s) => {
                self.result("satisfy", "sat");
                self.check_solution(&s, "satisfy").map(|_| ())
            }
            SatisfactionResult::Unsatisfiable => {
                self.result("satisfy", "unsat");
                if !self.lo_is_empty() {
                    let n = self.sols_lo().len();
                    viol(self.cur_op, "H-VERDICT:unsat-but-solutions", format!("satisfy: Unsatisfiable but the model has {n} solutions, e.g. {:?}", self.sols_lo()[0]))
                } else {
                    self.dead = true;
                    Ok(())
                }
            }
            SatisfactionResult::Unknown => {
                self.result("satisfy", "unknown");
                self.judge_unknown(fired, exhausted, "satisfy")
            }
        };
        let e = self.drain_and_check(None);
        r.and(e)
    }

    fn op_assume<B: Brancher>(&mut self, b: &mut B, preds: &[Pred], want_core: bool, interrupt: Option<u64>) -> V<()> {
        let assumptions: Vec<Predicate> = preds.iter().map(|p| self.binding.pred(p)).collect();
        let ok = |s: &[i32]| preds.iter().all(|p| p.holds(s));
        // a pair of assumptions over the same variable that no integer satisfies together
        let contradictory = preds.iter().enumerate().any(|(i, p)| {
            preds.iter().skip(i + 1).any(|q| {
                p.var == q.var && {
                    let lo = p.val.min(q.val) as i64 - 2;
                    let hi = p.val.max(q.val) as i64 + 2;
                    !(lo..=hi).any(|t| p.k.test(t, p.val as i64) && q.k.test(t, q.val as i64))
                }
            })
        });
        let mut clock = FaultClock::new(interrupt, self.case.budget);
        self.stats.solves += 1;
        let cur_op = self.cur_op;
        // The result borrows the solver; everything needed from `self` is computed up front.
        let lo_has_ok = self.refm.sols.iter().any(|s| ok(s) && !self.is_maybe_blocked(s));
        let lo_empty = self.lo_is_empty();
        let mut core_out: Option<Vec<Predicate>> = None;
        let mut verdict: V<()> = Ok(());
        let mut sol_out: Option<Solution> = None;
        let mut tag = "";
        let mut conflicting_panic_expected = false;
        {
            let res = self.solver.satisfy_under_assumptions(b, &mut clock, &assumptions);
            match res {
                SatisfactionResultUnderAssumptions::Satisfiable(s) => {
                    tag = "sat";
                    sol_out = Some(s);
                }
                SatisfactionResultUnderAssumptions::Unsatisfiable => {
                    tag = "unsat";
                    if !lo_empty {
                        verdict = viol(cur_op, "H-VERDICT:unsat-but-solutions", "satisfy_under_assumptions: Unsatisfiable but the model has solutions".to_string());
                    }
                }
                SatisfactionResultUnderAssumptions::UnsatisfiableUnderAssumptions(mut u) => {
                    tag = "unsat-assumptions";
                    if lo_has_ok {
                        verdict = viol(cur_op, "H-ASSUME:unsat-under-assumptions-but-solutions", format!("model has a solution satisfying all assumptions {:?}", preds.iter().map(|p| p.show()).collect::<Vec<_>>()));
                    } else if want_core {
                        if contradictory {
                            conflicting_panic_expected = true;
                            let r = catch_unwind(AssertUnwindSafe(|| u.extract_core()));
                            match r {
                                Ok(core) => core_out = Some(core.to_vec()),
                                Err(_) => {
                                    let (loc, msg) = LAST_PANIC.with(|p| p.borrow_mut().take()).unwrap_or_default();
                                    if !msg.contains(CONFLICTING_ASSUMPTIONS_MSG) {
                                        verdict = viol(cur_op, &format!("PANIC@{loc}"), format!("extract_core panicked: {msg}"));
                                    }
                                }
                            }
                        } else {
                            core_out = Some(u.extract_core().to_vec());
                        }
                    }
                    // dropping `u` restores the solver state
                }
                SatisfactionResultUnderAssumptions::Unknown => {
                    tag = "unknown";
                }
            }
        }
        let _ = conflicting_panic_expected;
        let (fired, exhausted) = self.after_clock(&clock);
        self.result("assume", tag);
        verdict?;
        match tag {
            "sat" => {
                let v = self.check_solution(sol_out.as_ref().unwrap(), "satisfy_under_assumptions")?;
                if !ok(&v) {
                    let bad = preds.iter().find(|p| !p.holds(&v)).unwrap();
                    return viol(self.cur_op, "H-ASSUME:solution-violates-assumption", format!("solution {v:?} violates assumption {}", bad.show()));
                }
            }
            "unsat" => self.dead = true,
            "unknown" => self.judge_unknown(fired, exhausted, "satisfy_under_assumptions")?,
            _ => {}
        }
        if let Some(core) = core_out {
            self.trace.add(core.len() as u64);
            // (a) every core predicate is implied by the assumptions over the declared domains
            let mut scope: Vec<usize> = preds.iter().map(|p| p.var).collect();
            for p in &core {
                if let Some(q) = self.binding.unpred(p) {
                    scope.push(q.var);
                }
            }
            scope.sort();
            scope.dedup();
            for a in assignments_over(&self.refm.vars, &scope) {
                if ok(&a) {
                    if let Some(p) = core.iter().find(|p| !self.pred_holds(p, &a)) {
                        return viol(
                            self.cur_op,
                            "H-ASSUME:core-not-implied-by-assumptions",
                            format!("core predicate {} is not implied by the assumptions {:?}: assignment {a:?}", self.show_pred(p), preds.iter().map(|p| p.show()).collect::<Vec<_>>()),
                        );
                    }
                }
            }
            // (b) the core is inconsistent with the model
            if let Some(s) = self.refm.sols.iter().find(|s| !self.is_maybe_blocked(s) && core.iter().all(|p| self.pred_holds(p, s))) {
                return viol(self.cur_op, "H-ASSUME:core-consistent-with-model", format!("core {} is satisfied by solution {s:?}", self.show_preds(&core)));
            }
        }
        self.drain_and_check(None)
    }

    fn op_iterate<B: Brancher>(&mut self, b: &mut B, max: usize, interrupt: Option<u64>) -> V<()> {
        // A complete enumeration of thousands of solutions costs seconds to minutes (every
        // solution adds a blocking clause): beyond 2000 reference solutions the enumeration is cut
        // off there (validity and distinctness are still judged, completeness is not).
        // (with the learned-nogood / explanation oracles every segment of the enumeration is judged
        // against the solutions still admitted, which is quadratic: the cut-off is lower there)
        let cut = if self.case.checks.learned || self.case.checks.expl { 300 } else { 2000 };
        let max = if self.refm.sols.len() > cut { max.min(cut) } else { max };
        // the step budget of an enumeration is per solution: each `next_solution` is a solve of
        // its own and has to make progress within the budget
        let mut clock = FaultClock::new(interrupt, self.case.budget.saturating_mul(4));
        let progress = clock.progress.clone();
        clock.total_cap = self.case.budget.saturating_mul(6);
        let mut got: Vec<Vec<i32>> = vec![];
        let mut finished = false;
        let mut unknown = false;
        let mut first_unsat = false;
        let mut result: V<()> = Ok(());
        self.stats.solves += 1;
        let mut pending_block: Option<Vec<i32>> = None;
        // Single-iterator implementation: events are segmented by the marks pushed per step.
        let mut raw: Vec<Solution> = vec![];
        {
            let mut it = self.solver.get_solution_iterator(b, &mut clock);
            let mut n = 0usize;
            while n < max {
                match it.next_solution() {
                    IteratedSolution::Solution(s, _, _) => {
                        verif_hooks::mark(n as u64);
                        raw.push(s);
                        n += 1;
                        progress.set(true);
                    }
                    IteratedSolution::Finished => {
                        finished = true;
                        break;
                    }
                    IteratedSolution::Unsatisfiable => {
                        finished = true;
                        first_unsat = true;
                        break;
                    }
                    IteratedSolution::Unknown => {
                        unknown = true;
                        break;
                    }
                }
            }
        }
        let (fired, exhausted) = self.after_clock(&clock);
        // Split the events at the marks: segment j was produced while solutions 0..j were blocked.
        let events = verif_hooks::drain();
        let mut segments: Vec<Vec<Event>> = vec![vec![]];
        for e in events {
            if matches!(e, Event::Mark(_)) {
                segments.push(vec![]);
            } else {
                segments.last_mut().unwrap().push(e);
            }
        }
        for (j, seg) in segments.iter().enumerate() {
            // context: model with solutions 0..j-1 blocked (the j-th `next_solution` call adds the
            // blocking clause of solution j-1 first)
            if j >= 1 && j - 1 < raw.len() && result.is_ok() {
                // validate + block solution j-1
                match self.check_solution(&raw[j - 1], "iterate") {
                    Ok(v) => {
                        if got.contains(&v) {
                            result = viol(self.cur_op, "H-ENUM:duplicate", format!("iterate: solution {v:?} was yielded twice"));
                        }
                        got.push(v.clone());
                        // the clause for solution j-1 is added when solution j is requested
                        if let Some(prev) = pending_block.take() {
                            self.refm.block(&prev);
                        }
                        pending_block = Some(v);
                    }
                    Err(e) => result = Err(e),
                }
            }
            // the context is only materialised when an oracle of this case needs it
            let needs_ctx = (self.case.checks.learned || self.case.checks.expl) && seg.iter().any(|e| !matches!(e, Event::Decision { .. }));
            if result.is_ok() && !needs_ctx {
                result = self.process_events(seg, &[]);
            } else if result.is_ok() {
                // the events of segment j ran with solutions 0..j-1 blocked: `pending_block`
                // (solution j-1) is blocked as well from the solver's point of view
                let ctx: Vec<Vec<i32>> = match &pending_block {
                    Some(pb) if j >= 1 => self.refm.sols.iter().filter(|s| s[..pb.len()] != pb[..]).cloned().collect(),
                    _ => self.refm.sols.clone(),
                };
                result = self.process_events(seg, &ctx);
            }
        }
        result?;
        self.result("iterate", if finished { "finished" } else if unknown { "unknown" } else { "stopped" });
        if finished {
            // the last solution was blocked too (that is how the end was detected), unless the
            // very first call reported Unsatisfiable
            if let Some(prev) = pending_block.take() {
                self.refm.block(&prev);
            }
            if first_unsat && !got.is_empty() {
                return viol(self.cur_op, "H-ENUM:unsatisfiable-after-solutions", "iterator reported Unsatisfiable after yielding solutions".to_string());
            }
            // every solution (under the lenient reading) must have been produced
            let missing: Vec<&Vec<i32>> = self.refm.sols.iter().filter(|s| !self.is_maybe_blocked(s)).collect();
            if !missing.is_empty() {
                return viol(
                    self.cur_op,
                    "H-ENUM:missing-solutions",
                    format!("iterate: reported the end after {} solutions but {} solutions were never produced, e.g. {:?}", got.len(), missing.len(), missing[0]),
                );
            }
            self.refm.sols.clear();
            self.maybe_blocked.clear();
            self.dead = true;
        } else {
            if unknown {
                // the call that was interrupted had already added the blocking clause of the
                // solution yielded before it
                if let Some(prev) = pending_block.take() {
                    self.refm.block(&prev);
                }
                self.judge_unknown(fired, exhausted, "iterate")?;
            }
            if let Some(last) = pending_block.take() {
                // yielded last: not blocked by the code, "remains blocked" per the documentation
                self.maybe_blocked.retain(|m| !got.iter().any(|g| g[..m.len()] == m[..]));
                self.maybe_blocked.push(last);
            }
        }
        Ok(())
    }

    fn op_optimise<B: Brancher>(&mut self, b: &mut B, obj: &View, minimise: bool, sat_unsat: bool, interrupt: Option<u64>) -> V<()> {
        let mut clock = FaultClock::new(interrupt, self.case.budget.saturating_mul(4));
        let dir = if minimise { OptimisationDirection::Minimise } else { OptimisationDirection::Maximise };
        let incumbents: RefCell<Vec<Solution>> = RefCell::new(vec![]);
        let cb = |_: &Solver, s: SolutionReference, _: &B| {
            let mut inc = incumbents.borrow_mut();
            verif_hooks::mark(inc.len() as u64);
            inc.push(s.into());
        };
        let objective = self.binding.view(obj);
        self.stats.solves += 1;
        let res = if sat_unsat { self.solver.optimise(b, &mut clock, LinearSatUnsat::new(dir, objective, cb)) } else { self.solver.optimise(b, &mut clock, LinearUnsatSat::new(dir, objective, cb)) };
        let (fired, exhausted) = self.after_clock(&clock);
        let better = |a: i128, b: i128| if minimise { a < b } else { a > b };
        let best_of = |sols: &mut dyn Iterator<Item = &Vec<i32>>| -> Option<i128> { sols.map(|s| obj.eval(s)).reduce(|a, b| if better(b, a) { b } else { a }) };
        // incumbents handed to the callback
        let incs = incumbents.into_inner();
        let mut inc_vals: Vec<i128> = vec![];
        for (i, s) in incs.iter().enumerate() {
            let v = self.check_solution(s, &format!("optimise callback #{i}"))?;
            inc_vals.push(obj.eval(&v));
        }
        // events, segmented by incumbent
        let events = verif_hooks::drain();
        let mut seg = 0usize;
        let mut cur: Vec<Event> = vec![];
        let mut segs: Vec<Vec<Event>> = vec![];
        for e in events {
            if matches!(e, Event::Mark(_)) {
                segs.push(std::mem::take(&mut cur));
            } else {
                cur.push(e);
            }
        }
        segs.push(cur);
        for s in segs {
            let ctx: Vec<Vec<i32>> = if sat_unsat && seg >= 1 && seg - 1 < inc_vals.len() {
                let bound = inc_vals[seg - 1];
                self.refm.sols.iter().filter(|x| better(obj.eval(x), bound)).cloned().collect()
            } else {
                self.refm.sols.clone()
            };
            self.process_events(&s, &ctx)?;
            seg += 1;
        }
        let opt_hi = best_of(&mut self.refm.sols.iter());
        let opt_lo = best_of(&mut self.refm.sols.iter().filter(|s| !self.is_maybe_blocked(s)));
        match res {
            OptimisationResult::Optimal(s) => {
                self.result("optimise", "optimal");
                *self.stats.probes.entry(format!("optimise:incumbents:{}", inc_vals.len().min(5))).or_insert(0) += 1;
                let v = self.check_solution(&s, "optimise result")?;
                let val = obj.eval(&v);
                if Some(val) != opt_hi && Some(val) != opt_lo {
                    return viol(self.cur_op, "H-OPT:not-optimal", format!("optimise: Optimal with objective {val} but the true optimum is {opt_hi:?}"));
                }
            }
            OptimisationResult::Unsatisfiable => {
                self.result("optimise", "unsat");
                if !self.lo_is_empty() {
                    return viol(self.cur_op, "H-OPT:unsat-but-solutions", format!("optimise: Unsatisfiable but the model has solutions, e.g. {:?}", self.sols_lo()[0]));
                }
                self.dead = true;
            }
            OptimisationResult::Satisfiable(s) => {
                self.result("optimise", "satisfiable");
                let _ = self.check_solution(&s, "optimise best-so-far")?;
                self.judge_unknown(fired, exhausted, "optimise")?;
            }
            OptimisationResult::Unknown => {
                self.result("optimise", "unknown");
                self.judge_unknown(fired, exhausted, "optimise")?;
            }
        }
        Ok(())
    }

    fn step(&mut self, op: &Op) -> V<()> {
        self.trace.add_s(op.name());
        // ops over variables whose creation was skipped (see AddVar) are skipped as well
        let max_var = match op {
            Op::Post(c) => c.scope().into_iter().max(),
            Op::Assume { preds, .. } => preds.iter().map(|p| p.var).max(),
            Op::Optimise { obj, .. } => Some(obj.var),
            _ => None,
        };
        if max_var.is_some_and(|m| m >= self.binding.vars.len()) {
            self.trace.add_s("skipped");
            return Ok(());
        }
        match op {
            Op::AddVar(decl) => {
                if self.dead {
                    // Creating variables on a solver that reported infeasibility is outside the
                    // documented contract (the code asserts it); skipped deterministically.
                    self.trace.add_s("skipped");
                    return Ok(());
                }
                self.binding.add_var(&mut self.solver, decl, None);
                self.refm.add_var(decl.clone());
                self.occ.push(0);
            }
            Op::Post(c) => {
                for v in c.scope() {
                    self.occ[v] += 1;
                }
                let tag = self.refm.cons.len() as u32 + 1;
                let r = adapter::post(&mut self.solver, &self.binding, c, Some(tag));
                self.refm.add_con(c.clone());
                let e = self.drain_and_check(None);
                if r.is_err() {
                    self.trace.add_s("post-error");
                    if !self.lo_is_empty() {
                        return viol(
                            self.cur_op,
                            "H-VERDICT:post-error-but-solutions",
                            format!("posting {} returned an infeasibility error but the model has solutions, e.g. {:?}", c.to_json().to_string(), self.sols_lo()[0]),
                        );
                    }
                    self.dead = true;
                }
                e?;
            }
            Op::Bounds => {}
            solve => {
                self.ensure_brancher();
                let mut br = self.brancher.take().unwrap();
                let r = match solve {
                    Op::Satisfy { interrupt } => with_brancher!(&mut br, b => self.op_satisfy(b, *interrupt)),
                    Op::Assume { preds, core, interrupt } => with_brancher!(&mut br, b => self.op_assume(b, preds, *core, *interrupt)),
                    Op::Iterate { max, interrupt } => with_brancher!(&mut br, b => self.op_iterate(b, *max, *interrupt)),
                    Op::Optimise { obj, minimise, sat_unsat, interrupt } => with_brancher!(&mut br, b => self.op_optimise(b, obj, *minimise, *sat_unsat, *interrupt)),
                    _ => unreachable!(),
                };
                self.brancher = Some(br);
                r?;
            }
        }
        self.bounds_oracle()
    }
}

/// Runs the case; a pure function of the case (one seed = one exactly repeatable execution).
pub fn run_case(case: &Case) -> Outcome {
    if ANNOUNCE.with(|a| a.get()) {
        use std::io::Write;
        println!("A {}", case.to_json().to_string());
        let _ = std::io::stdout().flush();
    }
    verif_hooks::enable(true);
    verif_hooks::enable_explanations(case.checks.expl);
    let _ = verif_hooks::drain();
    let _ = verif_hooks::drain_probes();
    LAST_PANIC.with(|p| *p.borrow_mut() = None);
    let mut ex = Exec::new(case);
    let result = catch_unwind(AssertUnwindSafe(|| -> V<()> {
        for (i, op) in case.ops.iter().enumerate() {
            ex.cur_op = i;
            ex.step(op)?;
            if ex.inconclusive {
                break;
            }
        }
        Ok(())
    }));
    let _ = verif_hooks::drain();
    verif_hooks::enable(false);
    let mut aborted = None;
    let violation = match result {
        Ok(Ok(())) => None,
        Ok(Err(v)) => Some(v),
        Err(_) => {
            let (loc, msg) = LAST_PANIC.with(|p| p.borrow_mut().take()).unwrap_or_default();
            let first = msg.lines().next().unwrap_or("").chars().take(160).collect::<String>();
            if case.checks.panic_violation {
                Some(Violation { class: format!("PANIC@{loc}"), msg: format!("{} panicked at {loc}: {first}", case.ops[ex.cur_op].name()), op_index: ex.cur_op })
            } else {
                ex.stats.aborted += 1;
                aborted = Some(format!("{loc}: {first}"));
                None
            }
        }
    };
    for (k, v) in verif_hooks::drain_probes() {
        *ex.stats.probes.entry(k.to_string()).or_insert(0) += v;
    }
    ex.stats.states = ex.states.iter().copied().collect();
    // A panic leaves solver and brancher in an arbitrary state; they are dropped here. Forget
    // nothing: a drop that panics again would abort, which the supervisor reports as a crash.
    Outcome { violation, trace: ex.trace.0, stats: ex.stats, polls_per_op: ex.polls_per_op, aborted }
}
