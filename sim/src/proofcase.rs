//! K3: library runs with DRCP proof logging, checked by the independent checker (filled in below).
use crate::exec::{Case, Outcome};
use crate::json::J;

#[derive(Clone, Debug, PartialEq)]
pub struct ProofCase {
    pub case: Case,
}

impl ProofCase {
    pub fn to_json(&self) -> J {
        J::obj(vec![("type", J::s("proof")), ("case", self.case.to_json())])
    }
    pub fn from_json(j: &J) -> ProofCase {
        ProofCase { case: Case::from_json(j.at("case")) }
    }
    pub fn candidates(&self) -> Vec<ProofCase> {
        vec![]
    }
    pub fn run(&self) -> Outcome {
        unimplemented!()
    }
}
