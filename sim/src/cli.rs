//! K4: the command-line binary as the system under test (filled in below).
use crate::exec::Outcome;
use crate::json::J;

#[derive(Clone, Debug, PartialEq)]
pub struct CliCase {
    pub prop: String,
}

impl CliCase {
    pub fn to_json(&self) -> J {
        J::obj(vec![("type", J::s("cli")), ("prop", J::s(&self.prop))])
    }
    pub fn from_json(j: &J) -> CliCase {
        CliCase { prop: j.at("prop").as_str().to_string() }
    }
    pub fn candidates(&self) -> Vec<CliCase> {
        vec![]
    }
    pub fn run(&self) -> Outcome {
        unimplemented!()
    }
}
