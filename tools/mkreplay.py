#!/usr/bin/env python3
"""Writes a replay file from a compact description (used for hand-written demonstrations).
usage: mkreplay.py <out.json> <property> <class> '<ops json>' ['<brancher json>'] ['<knobs overrides json>'] [scen]"""
import json, sys
KNOBS = {"uip": True, "minimise": True, "no_restarts": False, "seq": 0, "base": 50, "first": 10000, "lbd_coef": 1.25,
         "num_assigned_coef": 1.4, "window": 5000, "geometric": 1.5, "max_activity": 1e20, "decay": 0.99, "limit": 4000,
         "lbd_threshold": 5, "sort_lbd": True, "solver_seed": 42}
out, prop, cls, ops = sys.argv[1], sys.argv[2], sys.argv[3], json.loads(sys.argv[4])
brancher = json.loads(sys.argv[5]) if len(sys.argv) > 5 and sys.argv[5] else {"b": "sched", "mode": 4, "seed": 0}
knobs = dict(KNOBS); knobs.update(json.loads(sys.argv[6]) if len(sys.argv) > 6 and sys.argv[6] else {})
scen = sys.argv[7] if len(sys.argv) > 7 else "history"
checks = {"expl": prop == "C17", "learned": prop in ("C02", "C07"), "decision": prop == "C18",
          "panic_violation": prop not in ("C01", "C12", "C17"), "bounds": True}
case = {"prop": prop, "scen": scen, "knobs": knobs, "brancher": brancher, "budget": 200000, "liveness": True, "checks": checks, "ops": ops}
json.dump({"property": prop, "class": cls, "message": "", "op_index": 0, "seed": 0, "unit": 0, "case": case}, open(out, "w"), indent=1)
