//! FlatZinc models for the CLI scenario (C13): a small IR over the supported builtins with their
//! *standard* FlatZinc meaning (1-based element, truncating division, ...), an emitter, the
//! reference evaluator and the judge for the solver's output stream.
use std::collections::BTreeSet;

use crate::json::J;
use crate::rng::Rng;

#[derive(Clone, Debug, PartialEq)]
pub struct FVar {
    pub name: String,
    pub is_bool: bool,
    pub dom: Vec<i32>,
    /// 0: range `lb..ub`, 1: set `{a,b,c}`, 2: bool, 3: fixed via `= value` initialiser,
    /// 4: fixed via `= <parameter>` (a parameter declared before it)
    pub decl: u8,
    pub output: bool,
    /// `var <domain>: name = <earlier variable>;`: the same variable under another name, within
    /// this declaration's own domain
    pub alias: Option<usize>,
}

#[derive(Clone, Copy, Debug, PartialEq)]
pub enum Arg {
    Var(usize),
    Const(i32),
}

#[derive(Clone, Debug, PartialEq)]
pub enum SetLit {
    Range(i32, i32),
    Values(Vec<i32>),
}

/// One constraint item; the interpretation of the fields depends on `name`.
#[derive(Clone, Debug, PartialEq)]
pub struct FCon {
    pub name: String,
    pub coeffs: Vec<i32>,
    pub xs: Vec<Arg>,
    pub ys: Vec<Arg>,
    pub a: Vec<Arg>,
    pub k: i32,
    pub set: Option<SetLit>,
}

#[derive(Clone, Debug, PartialEq)]
pub struct FznModel {
    pub vars: Vec<FVar>,
    pub cons: Vec<FCon>,
    /// 0 satisfy, 1 minimize, 2 maximize
    pub mode: u8,
    pub obj: usize,
    /// optional search annotation: (variables, variable selection, value selection)
    pub search: Option<(Vec<usize>, String, String)>,
}

/// Whether every class of variables connected by aliases has a common value (an alias class
/// whose declared domains are disjoint is a degenerate input no MiniZinc compilation produces).
pub fn aliases_consistent(vars: &[FVar]) -> bool {
    let mut root: Vec<usize> = (0..vars.len()).collect();
    for i in 0..vars.len() {
        if let Some(t) = vars[i].alias {
            root[i] = root[t];
        }
    }
    (0..vars.len()).all(|r| {
        let members: Vec<usize> = (0..vars.len()).filter(|i| root[*i] == r).collect();
        members.is_empty() || vars[members[0]].dom.iter().any(|x| members.iter().all(|m| vars[*m].dom.contains(x)))
    })
}

fn tdiv(a: i64, b: i64) -> i64 {
    a / b
}

impl FznModel {
    fn val(&self, t: &Arg, a: &[i32]) -> i64 {
        match t {
            Arg::Var(i) => a[*i] as i64,
            Arg::Const(c) => *c as i64,
        }
    }

    pub fn holds(&self, c: &FCon, a: &[i32]) -> bool {
        let v = |t: &Arg| self.val(t, a);
        let b = |t: &Arg| self.val(t, a) == 1;
        let lin = || c.coeffs.iter().zip(&c.xs).map(|(w, x)| *w as i64 * v(x)).sum::<i64>();
        let reif = |h: bool, r: Option<&Arg>| match r {
            Some(r) => b(r) == h,
            None => h,
        };
        match c.name.as_str() {
            "int_lin_le" => lin() <= c.k as i64,
            "int_lin_eq" => lin() == c.k as i64,
            "int_lin_ne" => lin() != c.k as i64,
            "int_lin_le_reif" => reif(lin() <= c.k as i64, c.a.first()),
            "int_lin_eq_reif" => reif(lin() == c.k as i64, c.a.first()),
            "int_lin_ne_reif" => reif(lin() != c.k as i64, c.a.first()),
            "int_eq" => v(&c.a[0]) == v(&c.a[1]),
            "int_ne" => v(&c.a[0]) != v(&c.a[1]),
            "int_le" => v(&c.a[0]) <= v(&c.a[1]),
            "int_lt" => v(&c.a[0]) < v(&c.a[1]),
            "int_eq_reif" => reif(v(&c.a[0]) == v(&c.a[1]), c.a.get(2)),
            "int_ne_reif" => reif(v(&c.a[0]) != v(&c.a[1]), c.a.get(2)),
            "int_le_reif" => reif(v(&c.a[0]) <= v(&c.a[1]), c.a.get(2)),
            "int_lt_reif" => reif(v(&c.a[0]) < v(&c.a[1]), c.a.get(2)),
            "int_plus" => v(&c.a[0]) + v(&c.a[1]) == v(&c.a[2]),
            "int_times" => v(&c.a[0]) * v(&c.a[1]) == v(&c.a[2]),
            "int_div" => v(&c.a[1]) != 0 && tdiv(v(&c.a[0]), v(&c.a[1])) == v(&c.a[2]),
            "int_abs" => v(&c.a[0]).abs() == v(&c.a[1]),
            "int_max" => v(&c.a[0]).max(v(&c.a[1])) == v(&c.a[2]),
            "int_min" => v(&c.a[0]).min(v(&c.a[1])) == v(&c.a[2]),
            "array_int_maximum" => v(&c.a[0]) == c.xs.iter().map(v).max().unwrap(),
            "array_int_minimum" => v(&c.a[0]) == c.xs.iter().map(v).min().unwrap(),
            "array_var_int_element" | "array_int_element" | "array_var_bool_element" | "array_bool_element" => {
                let i = v(&c.a[0]);
                i >= 1 && (i as usize) <= c.xs.len() && v(&c.xs[i as usize - 1]) == v(&c.a[1])
            }
            "pumpkin_all_different" => {
                let vals: Vec<i64> = c.xs.iter().map(v).collect();
                vals.iter().collect::<BTreeSet<_>>().len() == vals.len()
            }
            "set_in" | "set_in_reif" => {
                let x = v(&c.a[0]);
                let h = match c.set.as_ref().unwrap() {
                    SetLit::Range(l, u) => *l as i64 <= x && x <= *u as i64,
                    SetLit::Values(vs) => vs.iter().any(|y| *y as i64 == x),
                };
                reif(h, c.a.get(1))
            }
            "bool_clause" => c.xs.iter().any(|x| b(x)) || c.ys.iter().any(|x| !b(x)),
            "array_bool_and" => b(&c.a[0]) == c.xs.iter().all(|x| b(x)),
            "array_bool_or" => b(&c.a[0]) == c.xs.iter().any(|x| b(x)),
            "bool_not" | "pumpkin_bool_xor" => b(&c.a[0]) != b(&c.a[1]),
            "bool_eq" => b(&c.a[0]) == b(&c.a[1]),
            "bool_eq_reif" => b(&c.a[2]) == (b(&c.a[0]) == b(&c.a[1])),
            "pumpkin_bool_xor_reif" => b(&c.a[2]) == (b(&c.a[0]) != b(&c.a[1])),
            "bool_and" => b(&c.a[2]) == (b(&c.a[0]) && b(&c.a[1])),
            "bool2int" => v(&c.a[0]) == v(&c.a[1]),
            "bool_lin_eq" => lin() == v(&c.a[0]),
            "bool_lin_le" => lin() <= c.k as i64,
            "pumpkin_cumulative" => {
                // xs: start times, coeffs: durations, ys (constants): usages, k: capacity
                let n = c.xs.len();
                for i in 0..n {
                    if c.coeffs[i] <= 0 {
                        continue;
                    }
                    let t = v(&c.xs[i]);
                    let mut u = 0i64;
                    for j in 0..n {
                        let s = v(&c.xs[j]);
                        if c.coeffs[j] > 0 && s <= t && t < s + c.coeffs[j] as i64 {
                            u += v(&c.ys[j]);
                        }
                    }
                    if u > c.k as i64 {
                        return false;
                    }
                }
                true
            }
            other => panic!("fzn: no semantics for {other}"),
        }
    }

    pub fn solutions(&self) -> Vec<Vec<i32>> {
        let mut out: Vec<Vec<i32>> = vec![vec![]];
        for v in &self.vars {
            let mut next = vec![];
            for s in &out {
                for x in &v.dom {
                    let mut t = s.clone();
                    t.push(*x);
                    next.push(t);
                }
            }
            out = next;
        }
        out.retain(|a| self.vars.iter().enumerate().all(|(i, v)| v.alias.is_none_or(|t| a[i] == a[t])));
        out.retain(|a| self.cons.iter().all(|c| self.holds(c, a)));
        out
    }

    fn nm(&self, t: &Arg) -> String {
        match t {
            Arg::Var(i) => self.vars[*i].name.clone(),
            Arg::Const(c) => {
                c.to_string()
            }
        }
    }
    fn bnm(&self, t: &Arg) -> String {
        match t {
            Arg::Var(i) => self.vars[*i].name.clone(),
            Arg::Const(c) => (if *c == 1 { "true" } else { "false" }).to_string(),
        }
    }

    pub fn emit(&self) -> String {
        let arr = |ts: &[Arg]| format!("[{}]", ts.iter().map(|t| self.nm(t)).collect::<Vec<_>>().join(", "));
        let barr = |ts: &[Arg]| format!("[{}]", ts.iter().map(|t| self.bnm(t)).collect::<Vec<_>>().join(", "));
        let carr = |xs: &[i32]| format!("[{}]", xs.iter().map(|x| x.to_string()).collect::<Vec<_>>().join(", "));
        let mut lines: Vec<String> = vec![];
        for v in &self.vars {
            if v.decl == 4 {
                if v.is_bool {
                    lines.push(format!("bool: p_{} = {};", v.name, if v.dom[0] == 1 { "true" } else { "false" }));
                } else {
                    lines.push(format!("int: p_{} = {};", v.name, v.dom[0]));
                }
            }
        }
        for v in &self.vars {
            let ann = if v.output { " :: output_var" } else { "" };
            let init = match v.alias {
                Some(t) => format!(" = {}", self.vars[t].name),
                None => String::new(),
            };
            let line = match v.decl {
                2 => format!("var bool: {}{ann}{init};", v.name),
                1 => format!("var {{{}}}: {}{ann}{init};", v.dom.iter().map(|x| x.to_string()).collect::<Vec<_>>().join(","), v.name),
                3 => format!("var {}..{}: {}{ann} = {};", v.dom[0], v.dom[0], v.name, v.dom[0]),
                4 if v.is_bool => format!("var bool: {}{ann} = p_{};", v.name, v.name),
                4 => format!("var {}..{}: {}{ann} = p_{};", v.dom[0], v.dom[0], v.name, v.name),
                _ => format!("var {}..{}: {}{ann}{init};", v.dom[0], v.dom[v.dom.len() - 1], v.name),
            };
            lines.push(line);
        }
        for c in &self.cons {
            let n = c.name.as_str();
            let args: Vec<String> = match n {
                "int_lin_le" | "int_lin_eq" | "int_lin_ne" => vec![carr(&c.coeffs), arr(&c.xs), c.k.to_string()],
                "int_lin_le_reif" | "int_lin_eq_reif" | "int_lin_ne_reif" => vec![carr(&c.coeffs), arr(&c.xs), c.k.to_string(), self.bnm(&c.a[0])],
                "int_eq" | "int_ne" | "int_le" | "int_lt" | "int_abs" => vec![self.nm(&c.a[0]), self.nm(&c.a[1])],
                "int_eq_reif" | "int_ne_reif" | "int_le_reif" | "int_lt_reif" => vec![self.nm(&c.a[0]), self.nm(&c.a[1]), self.bnm(&c.a[2])],
                "int_plus" | "int_times" | "int_div" | "int_max" | "int_min" => vec![self.nm(&c.a[0]), self.nm(&c.a[1]), self.nm(&c.a[2])],
                "array_int_maximum" | "array_int_minimum" => vec![self.nm(&c.a[0]), arr(&c.xs)],
                "array_var_int_element" | "array_int_element" => vec![self.nm(&c.a[0]), arr(&c.xs), self.nm(&c.a[1])],
                "array_var_bool_element" | "array_bool_element" => vec![self.nm(&c.a[0]), barr(&c.xs), self.bnm(&c.a[1])],
                "pumpkin_all_different" => vec![arr(&c.xs)],
                "set_in" | "set_in_reif" => {
                    let s = match c.set.as_ref().unwrap() {
                        SetLit::Range(l, u) => format!("{l}..{u}"),
                        SetLit::Values(vs) => format!("{{{}}}", vs.iter().map(|x| x.to_string()).collect::<Vec<_>>().join(",")),
                    };
                    let mut v = vec![self.nm(&c.a[0]), s];
                    if n == "set_in_reif" {
                        v.push(self.bnm(&c.a[1]));
                    }
                    v
                }
                "bool_clause" => vec![barr(&c.xs), barr(&c.ys)],
                "array_bool_and" | "array_bool_or" => vec![barr(&c.xs), self.bnm(&c.a[0])],
                "bool_not" | "bool_eq" | "pumpkin_bool_xor" => vec![self.bnm(&c.a[0]), self.bnm(&c.a[1])],
                "bool_eq_reif" | "pumpkin_bool_xor_reif" | "bool_and" => vec![self.bnm(&c.a[0]), self.bnm(&c.a[1]), self.bnm(&c.a[2])],
                "bool2int" => vec![self.bnm(&c.a[0]), self.nm(&c.a[1])],
                "bool_lin_eq" => vec![carr(&c.coeffs), barr(&c.xs), self.nm(&c.a[0])],
                "bool_lin_le" => vec![carr(&c.coeffs), barr(&c.xs), c.k.to_string()],
                "pumpkin_cumulative" => vec![arr(&c.xs), carr(&c.coeffs), arr(&c.ys), c.k.to_string()],
                other => panic!("fzn: cannot emit {other}"),
            };
            lines.push(format!("constraint {}({});", n, args.join(", ")));
        }
        let ann = match &self.search {
            Some((vars, vs, ls)) => {
                let all_bool = vars.iter().all(|i| self.vars[*i].is_bool);
                format!(
                    " :: {}([{}], {}, {}, complete)",
                    if all_bool { "bool_search" } else { "int_search" },
                    vars.iter().map(|i| self.vars[*i].name.clone()).collect::<Vec<_>>().join(", "),
                    vs,
                    ls
                )
            }
            None => String::new(),
        };
        lines.push(match self.mode {
            0 => format!("solve{ann} satisfy;"),
            1 => format!("solve{ann} minimize {};", self.vars[self.obj].name),
            _ => format!("solve{ann} maximize {};", self.vars[self.obj].name),
        });
        lines.join("\n") + "\n"
    }

    /// Judges the output stream of the solver against the reference solution set.
    pub fn judge(&self, stdout: &str, all: bool) -> Result<(), (String, String)> {
        let sols = self.solutions();
        let outputs: Vec<usize> = (0..self.vars.len()).filter(|i| self.vars[*i].output).collect();
        let project = |s: &Vec<i32>| -> Vec<i32> { outputs.iter().map(|i| s[*i]).collect() };
        let proj: BTreeSet<Vec<i32>> = sols.iter().map(project).collect();
        let mut blocks: Vec<Vec<Option<i32>>> = vec![];
        let mut cur: Vec<Option<i32>> = vec![None; outputs.len()];
        let mut status = "";
        for l in stdout.lines() {
            let l = l.trim();
            match l {
                "----------" => {
                    blocks.push(std::mem::replace(&mut cur, vec![None; outputs.len()]));
                }
                "==========" => status = "complete",
                "=====UNSATISFIABLE=====" => status = "unsat",
                "=====UNKNOWN=====" => status = "unknown",
                _ => {
                    if let Some((name, rest)) = l.split_once(" = ") {
                        let value = rest.trim_end_matches(';');
                        let value = match value {
                            "true" => Some(1),
                            "false" => Some(0),
                            v => v.parse::<i32>().ok(),
                        };
                        if let Some(pos) = outputs.iter().position(|i| self.vars[*i].name == name) {
                            cur[pos] = value;
                        }
                    }
                }
            }
        }
        let e = |c: &str, m: String| Err((c.to_string(), m));
        let mut got: Vec<Vec<i32>> = vec![];
        for b in &blocks {
            if b.iter().any(|x| x.is_none()) {
                return e("H-FZN:incomplete-solution-block", format!("a solution block does not give a value to every output variable: {b:?}"));
            }
            let g: Vec<i32> = b.iter().map(|x| x.unwrap()).collect();
            if !proj.contains(&g) {
                return e("H-FZN:non-solution-printed", format!("printed assignment {g:?} of {:?} does not extend to a solution of the model", outputs.iter().map(|i| self.vars[*i].name.clone()).collect::<Vec<_>>()));
            }
            got.push(g);
        }
        if status == "unknown" || status.is_empty() && blocks.is_empty() {
            return e("H-FZN:no-verdict", format!("no verdict without a time limit; output: {stdout:?}"));
        }
        if sols.is_empty() {
            if status != "unsat" {
                return e("H-FZN:expected-unsatisfiable", format!("the model has no solution but the status was {status:?} with {} blocks", got.len()));
            }
            return Ok(());
        }
        if status == "unsat" {
            return e("H-FZN:unsat-but-solutions", format!("=====UNSATISFIABLE===== but the model has {} solutions, e.g. {:?}", sols.len(), sols[0]));
        }
        if self.mode == 0 {
            if all {
                let got_set: BTreeSet<Vec<i32>> = got.iter().cloned().collect();
                if status != "complete" {
                    return e("H-FZN:no-completeness-line", format!("-a on a satisfaction problem ended without ========== ({} blocks)", got.len()));
                }
                if got_set != proj {
                    let missing = proj.difference(&got_set).next();
                    return e("H-FZN:all-solutions-differ", format!("-a printed {} distinct projections, the model has {}; e.g. missing {:?}", got_set.len(), proj.len(), missing));
                }
            } else if got.is_empty() {
                return e("H-FZN:no-solution-printed", "satisfiable model but no solution block".to_string());
            }
        } else {
            let best = sols.iter().map(|s| s[self.obj]).reduce(|a, b| if self.mode == 1 { a.min(b) } else { a.max(b) }).unwrap();
            if status != "complete" {
                return e("H-FZN:no-completeness-line", "optimisation ended without ==========".to_string());
            }
            // the objective variable is an output variable by construction
            let pos = outputs.iter().position(|i| *i == self.obj).unwrap();
            match got.last() {
                Some(last) if last[pos] == best => {}
                Some(last) => return e("H-FZN:not-optimal", format!("the last solution before ========== has objective {} but the optimum is {best}", last[pos])),
                None => return e("H-FZN:no-solution-printed", "optimisation printed no solution".to_string()),
            }
        }
        Ok(())
    }

    // ---- generation ---------------------------------------------------------------------------

    pub fn generate(rng: &mut Rng, cumulative: bool) -> FznModel {
        let nv = rng.range(2, 5) as usize;
        let nb = rng.range(0, 3) as usize;
        let mut vars: Vec<FVar> = vec![];
        for i in 0..nv {
            let (dom, decl): (Vec<i32>, u8) = match rng.below(20) {
                0..=11 => {
                    let lb = rng.range32(-3, 3);
                    ((lb..=lb + rng.range32(0, 4)).collect(), 0)
                }
                12..=15 => {
                    let mut s: BTreeSet<i32> = BTreeSet::new();
                    for _ in 0..rng.range(1, 4) {
                        s.insert(rng.range32(-4, 5));
                    }
                    (s.into_iter().collect(), 1)
                }
                16 | 17 => (vec![rng.range32(-2, 3)], 0),
                _ => (vec![rng.range32(-2, 3)], 3),
            };
            vars.push(FVar { name: format!("x{i}"), is_bool: false, dom, decl, output: true, alias: None });
        }
        for i in 0..nb {
            vars.push(FVar { name: format!("b{i}"), is_bool: true, dom: vec![0, 1], decl: 2, output: true, alias: None });
        }
        // aliases (`var 2..5: w = z;`) and variables fixed through a parameter, in a third of the
        // models. Aliases that involve a set-domain declaration are an open finding (KF-007) and
        // only generated in a small slice.
        let set_aliases = rng.chance(0.04);
        if rng.chance(0.35) {
            for i in 0..vars.len() {
                match rng.below(8) {
                    0 | 1 => {
                        // the two declared domains share a value (an alias whose domains are
                        // disjoint is a degenerate input no MiniZinc compilation produces)
                        let earlier: Vec<usize> =
                            (0..i).filter(|j| vars[*j].is_bool == vars[i].is_bool && vars[*j].decl != 4 && (set_aliases || (vars[*j].decl != 1 && vars[i].decl != 1))).collect();
                        if !earlier.is_empty() && vars[i].decl != 3 {
                            let t = *rng.pick(&earlier);
                            vars[i].alias = Some(t);
                            if !aliases_consistent(&vars) {
                                vars[i].alias = None;
                            }
                        }
                    }
                    2 => {
                        let v = *rng.pick(&vars[i].dom);
                        vars[i].dom = vec![v];
                        vars[i].decl = 4;
                    }
                    _ => {}
                }
            }
        }
        let ints: Vec<usize> = (0..nv).collect();
        let bools: Vec<usize> = (nv..nv + nb).collect();
        let mut m = FznModel { vars, cons: vec![], mode: 0, obj: 0, search: None };
        let mut kinds: Vec<&str> = vec![
            "int_lin_le", "int_lin_eq", "int_lin_ne", "int_eq", "int_ne", "int_le", "int_lt", "int_plus", "int_times", "int_div", "int_abs", "int_max", "int_min", "array_int_maximum",
            "array_int_minimum", "array_var_int_element", "array_int_element", "pumpkin_all_different", "set_in",
        ];
        if !bools.is_empty() {
            kinds.extend([
                "int_lin_le_reif", "int_lin_eq_reif", "int_lin_ne_reif", "int_eq_reif", "int_ne_reif", "int_le_reif", "int_lt_reif", "bool_clause", "array_bool_and", "array_bool_or", "bool_not",
                "bool_eq", "bool_eq_reif", "bool2int", "bool_lin_eq", "bool_lin_le", "set_in_reif", "pumpkin_bool_xor", "pumpkin_bool_xor_reif", "bool_and", "array_var_bool_element",
            ]);
        }
        if cumulative {
            kinds.push("pumpkin_cumulative");
            kinds.push("pumpkin_cumulative");
        }
        let nc = rng.range(1, 4);
        for _ in 0..nc {
            let name = *rng.pick(&kinds);
            let iv = |rng: &mut Rng| if rng.chance(0.85) { Arg::Var(*rng.pick(&ints)) } else { Arg::Const(rng.range32(-2, 3)) };
            let bv = |rng: &mut Rng| if rng.chance(0.92) { Arg::Var(*rng.pick(&bools)) } else { Arg::Const(rng.below(2) as i32) };
            let mut c = FCon { name: name.to_string(), coeffs: vec![], xs: vec![], ys: vec![], a: vec![], k: 0, set: None };
            match name {
                "int_lin_le" | "int_lin_eq" | "int_lin_ne" | "int_lin_le_reif" | "int_lin_eq_reif" | "int_lin_ne_reif" => {
                    let n = rng.range(1, 3) as usize;
                    // a zero coefficient is legal FlatZinc; it is an open finding (KF-004) and only
                    // drawn in a small slice
                    c.coeffs = (0..n).map(|_| *rng.pick(&[-2, -1, 1, 1, 2, 3])).collect();
                    c.xs = (0..n).map(|_| Arg::Var(*rng.pick(&ints))).collect();
                    c.k = rng.range32(-4, 6);
                    if name.ends_with("reif") {
                        c.a = vec![bv(rng)];
                    }
                }
                "int_eq" | "int_ne" | "int_le" | "int_lt" | "int_abs" => c.a = vec![iv(rng), iv(rng)],
                "int_eq_reif" | "int_ne_reif" | "int_le_reif" | "int_lt_reif" => c.a = vec![iv(rng), iv(rng), bv(rng)],
                "int_plus" | "int_times" | "int_max" | "int_min" => c.a = vec![iv(rng), iv(rng), iv(rng)],
                "int_div" => {
                    let d = iv(rng);
                    let zero = match d {
                        Arg::Const(x) => x == 0,
                        Arg::Var(i) => m.vars[i].dom.contains(&0),
                    };
                    if zero {
                        continue;
                    }
                    c.a = vec![iv(rng), d, iv(rng)];
                }
                "array_int_maximum" | "array_int_minimum" => {
                    c.a = vec![iv(rng)];
                    c.xs = (0..rng.range(1, 3)).map(|_| iv(rng)).collect();
                }
                "array_var_int_element" => {
                    c.a = vec![iv(rng), iv(rng)];
                    c.xs = (0..rng.range(1, 3)).map(|_| iv(rng)).collect();
                }
                "array_int_element" => {
                    c.a = vec![iv(rng), iv(rng)];
                    c.xs = (0..rng.range(1, 3)).map(|_| Arg::Const(rng.range32(-2, 3))).collect();
                }
                "array_var_bool_element" => {
                    c.a = vec![iv(rng), bv(rng)];
                    c.xs = (0..rng.range(1, 3)).map(|_| bv(rng)).collect();
                }
                "pumpkin_all_different" => c.xs = (0..rng.range(2, 3)).map(|_| iv(rng)).collect(),
                "set_in" | "set_in_reif" => {
                    c.a = vec![Arg::Var(*rng.pick(&ints))];
                    c.set = Some(if rng.chance(0.5) {
                        let lb = rng.range32(-3, 3);
                        SetLit::Range(lb, lb + rng.range32(0, 3))
                    } else {
                        let mut s: BTreeSet<i32> = BTreeSet::new();
                        for _ in 0..rng.range(1, 3) {
                            s.insert(rng.range32(-3, 4));
                        }
                        SetLit::Values(s.into_iter().collect())
                    });
                    if name == "set_in_reif" {
                        c.a.push(bv(rng));
                    }
                }
                "bool_clause" => {
                    c.xs = (0..rng.range(0, 2)).map(|_| bv(rng)).collect();
                    c.ys = (0..rng.range(0, 2)).map(|_| bv(rng)).collect();
                }
                "array_bool_and" | "array_bool_or" => {
                    c.xs = (0..rng.range(1, 3)).map(|_| bv(rng)).collect();
                    c.a = vec![bv(rng)];
                }
                "bool_not" | "bool_eq" | "pumpkin_bool_xor" => c.a = vec![bv(rng), bv(rng)],
                "bool_eq_reif" | "pumpkin_bool_xor_reif" | "bool_and" => c.a = vec![bv(rng), bv(rng), bv(rng)],
                "bool2int" => c.a = vec![Arg::Var(*rng.pick(&bools)), Arg::Var(*rng.pick(&ints))],
                "bool_lin_eq" => {
                    let n = rng.range(1, 3) as usize;
                    c.coeffs = (0..n).map(|_| *rng.pick(&[-1, 1, 2, 3])).collect();
                    c.xs = (0..n).map(|_| Arg::Var(*rng.pick(&bools))).collect();
                    c.a = vec![Arg::Var(*rng.pick(&ints))];
                }
                "bool_lin_le" => {
                    let n = rng.range(1, 3) as usize;
                    c.coeffs = (0..n).map(|_| *rng.pick(&[-1, 1, 2, 3])).collect();
                    c.xs = (0..n).map(|_| Arg::Var(*rng.pick(&bools))).collect();
                    c.k = rng.range32(-1, 4);
                }
                "pumpkin_cumulative" => {
                    let n = rng.range(1, 3) as usize;
                    c.xs = (0..n).map(|_| Arg::Var(*rng.pick(&ints))).collect();
                    c.coeffs = (0..n).map(|_| rng.range32(0, 3)).collect();
                    c.k = rng.range32(1, 4);
                    c.ys = (0..n).map(|_| Arg::Const(rng.range32(0, c.k))).collect();
                }
                _ => unreachable!(),
            }
            m.cons.push(c);
        }
        m.mode = *rng.pick(&[0u8, 0, 0, 1, 2]);
        m.obj = *rng.pick(&ints);
        if rng.chance(0.4) {
            let use_bools = !bools.is_empty() && rng.chance(0.3);
            let pool = if use_bools { &bools } else { &ints };
            let k = rng.range(1, pool.len() as i64) as usize;
            let vs: Vec<usize> = pool.iter().copied().take(k).collect();
            let var_sel = *rng.pick(&["anti_first_fail", "first_fail", "input_order", "largest", "max_regret", "smallest"]);
            let val_sel = *rng.pick(&[
                "indomain", "indomain_interval", "indomain_max", "indomain_median", "indomain_middle", "indomain_min", "indomain_random", "indomain_reverse_split", "indomain_split",
                "indomain_split_random", "outdomain_max", "outdomain_median", "outdomain_min", "outdomain_random",
            ]);
            m.search = Some((vs, var_sel.to_string(), val_sel.to_string()));
        }
        m
    }

    pub fn candidates(&self) -> Vec<FznModel> {
        let mut out = vec![];
        for i in (0..self.cons.len()).rev() {
            let mut m = self.clone();
            m.cons.remove(i);
            out.push(m);
        }
        if self.search.is_some() {
            let mut m = self.clone();
            m.search = None;
            out.push(m);
        }
        if self.mode != 0 {
            let mut m = self.clone();
            m.mode = 0;
            out.push(m);
        }
        for i in 0..self.vars.len() {
            if self.vars[i].alias.is_some() {
                let mut m = self.clone();
                m.vars[i].alias = None;
                out.push(m);
            }
            if self.vars[i].decl == 4 {
                let mut m = self.clone();
                m.vars[i].decl = if m.vars[i].is_bool { 2 } else { 3 };
                if m.vars[i].is_bool {
                    m.vars[i].dom = vec![0, 1];
                }
                out.push(m);
            }
        }
        // drop unused trailing variables
        let used = |m: &FznModel, v: usize| {
            m.obj == v
                || m.vars.iter().any(|x| x.alias == Some(v))
                || m.search.as_ref().is_some_and(|(vs, _, _)| vs.contains(&v))
                || m.cons.iter().any(|c| c.xs.iter().chain(&c.ys).chain(&c.a).any(|t| *t == Arg::Var(v)))
        };
        if let Some(last) = self.vars.len().checked_sub(1) {
            if last > 0 && !used(self, last) {
                let mut m = self.clone();
                let _ = m.vars.pop();
                out.push(m);
            }
        }
        // shrink domains
        for (i, v) in self.vars.iter().enumerate() {
            if !v.is_bool && v.dom.len() > 1 {
                for drop in [0, v.dom.len() - 1] {
                    let mut m = self.clone();
                    m.vars[i].dom.remove(drop);
                    let d = &m.vars[i].dom;
                    let contiguous = (d[d.len() - 1] - d[0] + 1) as usize == d.len();
                    if m.vars[i].decl == 0 && !contiguous {
                        m.vars[i].decl = 1;
                    }
                    out.push(m);
                }
            }
        }
        // shorten arrays
        for (i, c) in self.cons.iter().enumerate() {
            if c.xs.len() > 1 && !matches!(c.name.as_str(), "pumpkin_cumulative") {
                let mut m = self.clone();
                let _ = m.cons[i].xs.pop();
                if !m.cons[i].coeffs.is_empty() {
                    let _ = m.cons[i].coeffs.pop();
                }
                out.push(m);
            }
        }
        // stay inside the generator's input space: the variables of one alias class share a value
        out.retain(|m| aliases_consistent(&m.vars));
        out
    }

    pub fn to_json(&self) -> J {
        let arg = |t: &Arg| match t {
            Arg::Var(i) => J::obj(vec![("v", J::u(*i as u64))]),
            Arg::Const(c) => J::obj(vec![("c", J::i(*c))]),
        };
        let args = |ts: &[Arg]| J::Arr(ts.iter().map(arg).collect());
        J::obj(vec![
            (
                "vars",
                J::Arr(
                    self.vars
                        .iter()
                        .map(|v| J::obj(vec![("name", J::s(&v.name)), ("bool", J::Bool(v.is_bool)), ("dom", J::ints(&v.dom)), ("decl", J::i(v.decl)), ("output", J::Bool(v.output)), ("alias", match v.alias { Some(t) => J::u(t as u64), None => J::Null })]))
                        .collect(),
                ),
            ),
            (
                "cons",
                J::Arr(
                    self.cons
                        .iter()
                        .map(|c| {
                            J::obj(vec![
                                ("name", J::s(&c.name)),
                                ("coeffs", J::ints(&c.coeffs)),
                                ("xs", args(&c.xs)),
                                ("ys", args(&c.ys)),
                                ("a", args(&c.a)),
                                ("k", J::i(c.k)),
                                (
                                    "set",
                                    match &c.set {
                                        None => J::Null,
                                        Some(SetLit::Range(l, u)) => J::obj(vec![("lb", J::i(*l)), ("ub", J::i(*u))]),
                                        Some(SetLit::Values(vs)) => J::obj(vec![("values", J::ints(vs))]),
                                    },
                                ),
                            ])
                        })
                        .collect(),
                ),
            ),
            ("mode", J::i(self.mode)),
            ("obj", J::u(self.obj as u64)),
            (
                "search",
                match &self.search {
                    None => J::Null,
                    Some((vs, a, b)) => J::obj(vec![("vars", J::Arr(vs.iter().map(|x| J::u(*x as u64)).collect())), ("var_sel", J::s(a)), ("val_sel", J::s(b))]),
                },
            ),
        ])
    }

    pub fn from_json(j: &J) -> FznModel {
        let arg = |t: &J| match t.get("v") {
            Some(v) => Arg::Var(v.as_usize()),
            None => Arg::Const(t.at("c").as_i32()),
        };
        let args = |t: &J| -> Vec<Arg> { t.as_arr().iter().map(arg).collect() };
        FznModel {
            vars: j
                .at("vars")
                .as_arr()
                .iter()
                .map(|v| FVar { name: v.at("name").as_str().to_string(), is_bool: v.at("bool").as_bool(), dom: v.at("dom").as_ints(), decl: v.at("decl").as_i64() as u8, output: v.at("output").as_bool(), alias: v.get("alias").and_then(|a| if matches!(a, J::Null) { None } else { Some(a.as_usize()) }) })
                .collect(),
            cons: j
                .at("cons")
                .as_arr()
                .iter()
                .map(|c| FCon {
                    name: c.at("name").as_str().to_string(),
                    coeffs: c.at("coeffs").as_ints(),
                    xs: args(c.at("xs")),
                    ys: args(c.at("ys")),
                    a: args(c.at("a")),
                    k: c.at("k").as_i32(),
                    set: match c.at("set") {
                        J::Null => None,
                        s => match s.get("values") {
                            Some(v) => Some(SetLit::Values(v.as_ints())),
                            None => Some(SetLit::Range(s.at("lb").as_i32(), s.at("ub").as_i32())),
                        },
                    },
                })
                .collect(),
            mode: j.at("mode").as_i64() as u8,
            obj: j.at("obj").as_usize(),
            search: match j.at("search") {
                J::Null => None,
                s => Some((s.at("vars").as_arr().iter().map(|x| x.as_usize()).collect(), s.at("var_sel").as_str().to_string(), s.at("val_sel").as_str().to_string())),
            },
        }
    }
}
