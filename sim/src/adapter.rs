//! Turns IR into calls of Pumpkin's public API.
use std::num::NonZero;

use pumpkin_solver::constraints::{self, Constraint, NegatableConstraint};
use pumpkin_solver::options::{CumulativeExplanationType, CumulativeOptions, CumulativePropagationMethod};
use pumpkin_solver::predicate;
use pumpkin_solver::predicates::Predicate;
use pumpkin_solver::variables::{AffineView, DomainId, Literal, TransformableVariable};
use pumpkin_solver::ConstraintOperationError;
use pumpkin_solver::Solver;

use crate::ir::{Con, Lit, Pk, Pred, VarDecl, VarKind, View};

/// The binding between model variables and solver variables.
#[derive(Clone, Debug, Default)]
pub struct Binding {
    pub vars: Vec<DomainId>,
    pub lits: Vec<Option<Literal>>,
}

impl Binding {
    pub fn add_var(&mut self, solver: &mut Solver, decl: &VarDecl, name: Option<String>) {
        match decl.kind {
            VarKind::Bool => {
                let l = match (&decl.link, name) {
                    (Some(p), _) => solver.new_literal_for_predicate(self.pred(p)),
                    (None, name) => match name {
                        Some(n) => solver.new_named_literal(n),
                        None => solver.new_literal(),
                    },
                };
                self.vars.push(l.get_true_predicate().get_domain());
                self.lits.push(Some(l));
            }
            VarKind::Interval => {
                let d = match name {
                    Some(n) => solver.new_named_bounded_integer(decl.lb(), decl.ub(), n),
                    None => solver.new_bounded_integer(decl.lb(), decl.ub()),
                };
                self.vars.push(d);
                self.lits.push(None);
            }
            VarKind::Sparse => {
                let d = match name {
                    Some(n) => solver.new_named_sparse_integer(decl.values.clone(), n),
                    None => solver.new_sparse_integer(decl.values.clone()),
                };
                self.vars.push(d);
                self.lits.push(None);
            }
        }
    }
    pub fn view(&self, v: &View) -> AffineView<DomainId> {
        self.vars[v.var].scaled(v.scale).offset(v.off)
    }
    pub fn views(&self, vs: &[View]) -> Vec<AffineView<DomainId>> {
        vs.iter().map(|v| self.view(v)).collect()
    }
    pub fn lit(&self, l: &Lit) -> Literal {
        let x = self.lits[l.var].expect("literal over a non-Boolean variable");
        if l.pos {
            x
        } else {
            !x
        }
    }
    pub fn pred(&self, p: &Pred) -> Predicate {
        let d = self.vars[p.var];
        let v = p.val;
        match p.k {
            Pk::Ge => predicate!(d >= v),
            Pk::Le => predicate!(d <= v),
            Pk::Eq => predicate!(d == v),
            Pk::Ne => predicate!(d != v),
        }
    }
    /// Maps a solver predicate back to the IR; `None` for domains the harness did not create
    /// (the always-true domain 0).
    pub fn unpred(&self, p: &Predicate) -> Option<Pred> {
        let var = self.vars.iter().position(|v| *v == p.get_domain())?;
        let val = p.get_right_hand_side();
        let k = if p.is_lower_bound_predicate() {
            Pk::Ge
        } else if p.is_upper_bound_predicate() {
            Pk::Le
        } else if p.is_equality_predicate() {
            Pk::Eq
        } else {
            Pk::Ne
        };
        Some(Pred { var, k, val })
    }
}

/// Truth value of a predicate over a domain the harness does not know: only the always-true
/// literal's domain (fixed to 1) can occur.
pub fn foreign_pred_value(p: &Predicate) -> bool {
    let r = p.get_right_hand_side();
    if p.is_lower_bound_predicate() {
        1 >= r
    } else if p.is_upper_bound_predicate() {
        1 <= r
    } else if p.is_equality_predicate() {
        1 == r
    } else {
        1 != r
    }
}

pub fn cumulative_options(k: u32) -> CumulativeOptions {
    let k = k as usize % 144;
    let methods = [
        CumulativePropagationMethod::TimeTablePerPoint,
        CumulativePropagationMethod::TimeTablePerPointIncremental,
        CumulativePropagationMethod::TimeTablePerPointIncrementalSynchronised,
        CumulativePropagationMethod::TimeTableOverInterval,
        CumulativePropagationMethod::TimeTableOverIntervalIncremental,
        CumulativePropagationMethod::TimeTableOverIntervalIncrementalSynchronised,
    ];
    let ex = [CumulativeExplanationType::Naive, CumulativeExplanationType::BigStep, CumulativeExplanationType::Pointwise];
    // k = holes + 2*(expl + 3*(sequence + 2*(method + 6*incremental_backtracking)))
    CumulativeOptions::new(k & 1 == 1, ex[(k >> 1) % 3], (k / 6) & 1 == 1, methods[(k / 12) % 6], (k / 72) & 1 == 1)
}

pub fn cumulative_options_name(k: u32) -> String {
    let k = k as usize % 144;
    let methods = ["per-point", "per-point-incr", "per-point-incr-sync", "over-interval", "over-interval-incr", "over-interval-incr-sync"];
    let ex = ["naive", "big-step", "pointwise"];
    format!(
        "{}|{}|holes={}|seq={}|incr-bt={}",
        methods[(k / 12) % 6],
        ex[(k >> 1) % 3],
        k & 1 == 1,
        (k / 6) & 1 == 1,
        (k / 72) & 1 == 1
    )
}

#[derive(Clone, Copy)]
enum Mode {
    Post,
    Half(Literal),
    Reif(Literal),
}

type PostResult = Result<(), ConstraintOperationError>;

fn fin<C: Constraint>(s: &mut Solver, c: C, mode: Mode, tag: Option<NonZero<u32>>) -> PostResult {
    let p = s.add_constraint(c);
    let p = match tag {
        Some(t) => p.with_tag(t),
        None => p,
    };
    match mode {
        Mode::Post => p.post(),
        Mode::Half(l) => p.implied_by(l),
        Mode::Reif(_) => panic!("harness: reify of a non-negatable constraint"),
    }
}

fn fin_n2<C: NegatableConstraint>(s: &mut Solver, c: C, mode: Mode, tag: Option<NonZero<u32>>) -> PostResult {
    let p = s.add_constraint(c);
    let p = match tag {
        Some(t) => p.with_tag(t),
        None => p,
    };
    match mode {
        Mode::Post => p.post(),
        Mode::Half(l) => p.implied_by(l),
        Mode::Reif(l) => p.reify(l),
    }
}

fn fin_n<C: NegatableConstraint>(s: &mut Solver, c: C, neg: bool, mode: Mode, tag: Option<NonZero<u32>>) -> PostResult {
    if neg {
        fin_n2(s, c.negation(), mode, tag)
    } else {
        fin_n2(s, c, mode, tag)
    }
}

/// Posts `con`; `tag` (1-based constraint index) is attached where the library supports it.
pub fn post(solver: &mut Solver, b: &Binding, con: &Con, tag: Option<u32>) -> PostResult {
    // Peel the wrappers: at most one of Half/Reif (outermost), any number of Not.
    let (mode, inner) = match con {
        Con::Half(c, l) => (Mode::Half(b.lit(l)), c.as_ref()),
        Con::Reif(c, l) => (Mode::Reif(b.lit(l)), c.as_ref()),
        c => (Mode::Post, c),
    };
    let mut neg = false;
    let mut base = inner;
    while let Con::Not(c) = base {
        neg = !neg;
        base = c.as_ref();
    }
    let tag = tag.and_then(NonZero::new);
    let s = solver;
    if neg || matches!(mode, Mode::Reif(_)) {
        assert!(base.negatable(), "harness: negation/reification of non-negatable kind {}", base.kind_name());
    }
    match base {
        Con::LinLe(t, r) => fin_n(s, constraints::less_than_or_equals(b.views(t), *r), neg, mode, tag),
        Con::LinEq(t, r) => fin_n(s, constraints::equals(b.views(t), *r), neg, mode, tag),
        Con::LinNe(t, r) => fin_n(s, constraints::not_equals(b.views(t), *r), neg, mode, tag),
        Con::BinEq(x, y) => fin_n(s, constraints::binary_equals(b.view(x), b.view(y)), neg, mode, tag),
        Con::BinNe(x, y) => fin_n(s, constraints::binary_not_equals(b.view(x), b.view(y)), neg, mode, tag),
        Con::BinLe(x, y) => fin_n(s, constraints::binary_less_than_or_equals(b.view(x), b.view(y)), neg, mode, tag),
        Con::BinLt(x, y) => fin_n(s, constraints::binary_less_than(b.view(x), b.view(y)), neg, mode, tag),
        // clauses cannot be tagged ("tagging clauses is not implemented")
        Con::LitClause(ls) => fin_n(s, constraints::clause(ls.iter().map(|l| b.lit(l)).collect::<Vec<_>>()), neg, mode, None),
        Con::LitConj(ls) => fin_n(s, constraints::conjunction(ls.iter().map(|l| b.lit(l)).collect::<Vec<_>>()), neg, mode, None),
        Con::Plus(x, y, z) => fin(s, constraints::plus(b.view(x), b.view(y), b.view(z)), mode, tag),
        Con::Times(x, y, z) => fin(s, constraints::times(b.view(x), b.view(y), b.view(z)), mode, tag),
        Con::Div(x, y, z) => fin(s, constraints::division(b.view(x), b.view(y), b.view(z)), mode, tag),
        Con::Abs(x, y) => fin(s, constraints::absolute(b.view(x), b.view(y)), mode, tag),
        Con::Max(xs, y) => fin(s, constraints::maximum(b.views(xs), b.view(y)), mode, tag),
        Con::Min(xs, y) => fin(s, constraints::minimum(b.views(xs), b.view(y)), mode, tag),
        Con::Element(i, xs, e) => fin(s, constraints::element(b.view(i), b.views(xs), b.view(e)), mode, tag),
        Con::AllDiff(xs) => fin(s, constraints::all_different(b.views(xs)), mode, tag),
        Con::BoolLe(w, ls, r) => {
            fin(s, constraints::boolean_less_than_or_equals(w.clone(), ls.iter().map(|l| b.lit(l)).collect::<Vec<_>>(), *r), mode, tag)
        }
        Con::BoolEq(w, ls, x) => {
            fin(s, constraints::boolean_equals(w.clone(), ls.iter().map(|l| b.lit(l)).collect::<Vec<_>>(), b.vars[*x]), mode, tag)
        }
        Con::Cumulative { starts, durations, usages, capacity, options } => fin(
            s,
            constraints::cumulative_with_options(b.views(starts), durations.clone(), usages.clone(), *capacity, cumulative_options(*options)),
            mode,
            tag,
        ),
        Con::PredClause(ps) => {
            assert!(matches!(mode, Mode::Post) && !neg, "harness: pred_clause can only be posted");
            s.add_clause(ps.iter().map(|p| b.pred(p)))
        }
        Con::ViewClause(ps) => {
            assert!(matches!(mode, Mode::Post) && !neg, "harness: view_clause can only be posted");
            let preds: Vec<Predicate> = ps
                .iter()
                .map(|(v, k, val)| {
                    let view = b.view(v);
                    let val = *val;
                    match k {
                        Pk::Ge => predicate!(view >= val),
                        Pk::Le => predicate!(view <= val),
                        Pk::Eq => predicate!(view == val),
                        Pk::Ne => predicate!(view != val),
                    }
                })
                .collect();
            s.add_clause(preds)
        }
        Con::Not(_) | Con::Half(..) | Con::Reif(..) => panic!("harness: nested reification is not expressible"),
    }
}
