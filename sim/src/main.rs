//! `sim` — deterministic simulation harness for Pumpkin (see /verif/DESIGN.md).
//!
//!   sim check <PROP> <quick|thorough>      supervisor: runs the property's workload in worker processes
//!   sim worker <PROP> <tier> <seed> <from> <to> [--announce]
//!   sim replay <file>                      re-executes a replay file in this (fresh) process
//!   sim eval <case.json>                   runs one case, prints the verdict (used by the shrinker)
//!   sim shrink <in.json> <out.json>        minimises a failing case
mod adapter;
mod anycase;
mod cli;
mod dimacs_stream;
mod proofcase;
mod deep;
mod streams;
mod exec;
mod findings;
mod fzn;
mod gen;
mod ir;
mod json;
mod props;
mod rng;
mod sched;
mod shrink;
mod supervisor;

use std::io::Write;

use anycase::AnyCase as Case;
use exec::Violation;
use json::J;
use props::Tier;

pub fn verif_root() -> String {
    std::env::var("VERIF_ROOT").unwrap_or_else(|_| "/verif".to_string())
}

fn parse_tier(s: &str) -> Tier {
    match s {
        "quick" => Tier::Quick,
        "thorough" => Tier::Thorough,
        _ => {
            eprintln!("unknown tier {s}");
            std::process::exit(2)
        }
    }
}

pub fn base_seed() -> u64 {
    std::env::var("VERIF_SEED").ok().and_then(|s| s.trim().parse::<u64>().ok()).unwrap_or(1)
}

pub fn unit_seed(base: u64, prop: &str, tier: Tier, idx: u64) -> u64 {
    rng::mix(&[base, rng::str_id(prop), tier as u64, idx])
}

fn violation_json(v: &Violation) -> J {
    J::obj(vec![("class", J::s(&v.class)), ("msg", J::s(&v.msg)), ("op_index", J::u(v.op_index as u64))])
}

fn violation_from(j: &J) -> Violation {
    Violation { class: j.at("class").as_str().to_string(), msg: j.at("msg").as_str().to_string(), op_index: j.at("op_index").as_usize() }
}

fn cmd_worker(args: &[String]) {
    let prop = &args[0];
    let tier = parse_tier(&args[1]);
    let seed: u64 = args[2].parse().unwrap();
    let from: u64 = args[3].parse().unwrap();
    let to: u64 = args[4].parse().unwrap();
    let announce = args.iter().any(|a| a == "--announce");
    exec::install_panic_hook();
    if announce {
        exec::ANNOUNCE.with(|a| a.set(true));
    }
    let stdout = std::io::stdout();
    let mut out = std::io::BufWriter::new(stdout.lock());
    let mut stats = exec::Stats::default();
    let mut samples = 0;
    for idx in from..to {
        let want_sample = samples < 2 && idx < from + 40;
        let r = props::run_unit(prop, tier, unit_seed(seed, prop, tier, idx), want_sample);
        props::merge_stats(&mut stats, &r.stats);
        if let Some(s) = &r.sample {
            samples += 1;
            let _ = writeln!(out, "M {idx} {}", s.to_string());
        }
        if let Some((case, v)) = &r.violation {
            let j = J::obj(vec![("case", case.to_json()), ("violation", violation_json(v))]);
            let _ = writeln!(out, "V {idx} {}", j.to_string());
        }
        let mut line = format!("U {idx} {}", r.cases);
        for (h, nt) in &r.traces {
            line.push_str(&format!(" {h:x}{}", if *nt { "!" } else { "" }));
        }
        let _ = writeln!(out, "{line}");
        if (idx - from) % 64 == 63 {
            let _ = writeln!(out, "S {}", supervisor::stats_json(&stats).to_string());
            stats = exec::Stats::default();
        }
        // one line per unit reaches the supervisor as soon as the unit is done: its watchdog
        // measures the time between lines
        let _ = out.flush();
    }
    let _ = writeln!(out, "S {}", supervisor::stats_json(&stats).to_string());
    let _ = writeln!(out, "D");
    let _ = out.flush();
}

fn cmd_eval(args: &[String]) {
    exec::install_panic_hook();
    let text = std::fs::read_to_string(&args[0]).expect("read case");
    let j = J::parse(&text).expect("parse case");
    // a replay file / shrink request wraps the case; a bare case (which may itself have a "case" member) does not
    let wrapped = j.get("case").is_some() && (j.get("property").is_some() || j.get("violation").is_some());
    let case = Case::from_json(if wrapped { j.at("case") } else { &j });
    let out = case.check();
    match out.violation {
        Some(v) => println!("VIOL {}", violation_json(&v).to_string()),
        None => println!("OK"),
    }
}

fn cmd_shrink(args: &[String]) {
    exec::install_panic_hook();
    let text = std::fs::read_to_string(&args[0]).expect("read case");
    let j = J::parse(&text).expect("parse");
    let case = Case::from_json(j.at("case"));
    let v = violation_from(j.at("violation"));
    let mut check = |c: &Case| c.check().violation;
    let (best, bv, evals) = shrink::shrink_any(&case, &v, &mut check, 4000);
    let out = J::obj(vec![("case", best.to_json()), ("violation", violation_json(&bv)), ("evals", J::u(evals as u64))]);
    std::fs::write(&args[1], out.to_string()).expect("write shrunk case");
}

fn cmd_replay(args: &[String]) {
    exec::install_panic_hook();
    let text = match std::fs::read_to_string(&args[0]) {
        Ok(t) => t,
        Err(e) => {
            eprintln!("cannot read {}: {e}", args[0]);
            std::process::exit(2)
        }
    };
    let j = J::parse(&text).expect("parse replay file");
    let prop = j.at("property").as_str().to_string();
    let class = j.at("class").as_str().to_string();
    let case = Case::from_json(j.at("case"));
    if class == "HANG" || class == "CRASH" {
        // executed in a child so that the verdict is a timeout, not a stuck terminal
        let v = supervisor::eval_in_child(&case, supervisor::watchdog_secs());
        match v {
            Some(v) if v.class == class => {
                println!("replay: {} reproduced: {}", class, v.msg);
                println!("VIOLATION property={prop} replay={}", args[0]);
                std::process::exit(1)
            }
            other => {
                println!("replay: expected {class}, got {other:?}");
                std::process::exit(2)
            }
        }
    }
    let out = case.check();
    let expect_trace = j.get("trace_id").map(|t| t.as_str().to_string());
    match out.violation {
        Some(v) if v.class.starts_with(&class) => {
            let same_trace = expect_trace.as_deref().is_none_or(|t| t == format!("{:016x}", out.trace));
            println!("replay: reproduced {} (trace id {:016x}{})", v.class, out.trace, if same_trace { ", identical to the recorded one" } else { ", DIFFERENT from the recorded one" });
            println!("  {}", v.msg);
            println!("VIOLATION property={prop} replay={}", args[0]);
            std::process::exit(if same_trace { 1 } else { 2 })
        }
        Some(v) => {
            println!("replay: a different violation occurred: {} ({})", v.class, v.msg);
            std::process::exit(2)
        }
        None => {
            println!("replay: the recorded violation {class} does not occur on this tree");
            std::process::exit(if std::env::var("VERIF_REPLAY_EXPECT_FIXED").is_ok() { 0 } else { 2 })
        }
    }
}

fn main() {
    let args: Vec<String> = std::env::args().skip(1).collect();
    if args.is_empty() {
        eprintln!("usage: sim check|worker|replay|eval|shrink ...");
        std::process::exit(2);
    }
    match args[0].as_str() {
        "worker" => cmd_worker(&args[1..]),
        "eval" => cmd_eval(&args[1..]),
        "shrink" => cmd_shrink(&args[1..]),
        "replay" => cmd_replay(&args[1..]),
        "check" => {
            let prop = args[1].clone();
            let tier = parse_tier(args.get(2).map(|s| s.as_str()).unwrap_or("quick"));
            std::process::exit(supervisor::check(&prop, tier))
        }
        other => {
            eprintln!("unknown command {other}");
            std::process::exit(2)
        }
    }
}
