//! The "deep model" scenario: models far beyond the exhaustive enumerator, with an analytic
//! reference. A chain x_0 <= x_1 <= ... <= x_n over 0-1 variables has n+2 solutions (the position
//! of the first 1); a handful of further small variables and constraints over three anchors of
//! the chain (x_0, x_mid, x_n) decide which of them are feasible. Reasons, learned nogoods and
//! their minimisation then run over implication chains hundreds of propagations long — the
//! dimension (recursion depth, trail length) the small enumerable models cannot reach.
//!
//! The same model and operation are run under several tuning configurations; each answer is
//! compared with the analytic reference (and thereby with each other).
use pumpkin_solver::optimisation::linear_sat_unsat::LinearSatUnsat;
use pumpkin_solver::optimisation::linear_unsat_sat::LinearUnsatSat;
use pumpkin_solver::optimisation::OptimisationDirection;
use pumpkin_solver::proof::ProofLog;
use pumpkin_solver::results::solution_iterator::IteratedSolution;
use pumpkin_solver::results::{OptimisationResult, ProblemSolution, SatisfactionResult, Solution, SolutionReference};
use pumpkin_solver::variables::DomainId;
use pumpkin_solver::verif_hooks;
use pumpkin_solver::Solver;

use crate::adapter::{self, Binding};
use crate::exec::{Op, Outcome, Stats, Violation};
use crate::ir::{Con, Pk, Pred, VarDecl, View};
use crate::json::J;
use crate::rng::Rng;
use crate::sched::{build_brancher, BrancherSpec, FaultClock, Knobs};
use crate::with_brancher;

#[derive(Clone, Debug, PartialEq)]
pub struct DeepCase {
    pub prop: String,
    /// the chain has the variables x_0 .. x_n
    pub n: usize,
    /// how a link x_i <= x_{i+1} is posted: 0 binary_less_than_or_equals, 1 linear x_i - x_{i+1}
    /// <= 0, 2 a clause [x_i <= 0] \/ [x_{i+1} >= 1], 3 binary_equals (all variables equal),
    /// 4 no links at all (the chain variables are unconstrained padding)
    pub link: u8,
    pub reverse_post: bool,
    /// further variables (model indices 3..; 0, 1, 2 are the anchors x_0, x_mid, x_n)
    pub free: Vec<VarDecl>,
    /// constraints over the anchors and the further variables, in the small indexing
    pub side: Vec<Con>,
    /// Satisfy, Iterate or Optimise (objective in the small indexing)
    pub op: Op,
    /// the order in which the brancher sees the small variables; the chain follows
    pub order: Vec<usize>,
    pub chain_first: bool,
    pub chain_reversed: bool,
    pub brancher: BrancherSpec,
    pub configs: Vec<Knobs>,
    /// N-queens over the further variables (a conflict-rich core whose solutions are not
    /// enumerated: one solution found by the harness stands for "satisfiable")
    pub queens: Option<usize>,
}

/// One solution of the N-queens problem (column of the queen in each row), by backtracking.
fn queens_solution(n: usize) -> Option<Vec<i32>> {
    fn go(n: usize, row: usize, cols: &mut Vec<i32>) -> bool {
        if row == n {
            return true;
        }
        for c in 0..n as i32 {
            if cols.iter().enumerate().all(|(r, q)| *q != c && (*q - c).abs() != (row - r) as i32) {
                cols.push(c);
                if go(n, row + 1, cols) {
                    return true;
                }
                let _ = cols.pop();
            }
        }
        false
    }
    let mut cols = vec![];
    if go(n, 0, &mut cols) {
        Some(cols)
    } else {
        None
    }
}

fn viol(class: &str, msg: String) -> Violation {
    Violation { class: class.to_string(), msg, op_index: 0 }
}

impl DeepCase {
    fn mid(&self) -> usize {
        self.n / 2
    }
    /// model index (small) -> solver variable index (chain variable i = i, further variable j = n+1+j)
    fn full(&self, small: usize) -> usize {
        match small {
            0 => 0,
            1 => self.mid(),
            2 => self.n,
            j => self.n + 1 + (j - 3),
        }
    }
    fn small_vars(&self) -> Vec<VarDecl> {
        let mut v = vec![VarDecl::interval(0, 1), VarDecl::interval(0, 1), VarDecl::interval(0, 1)];
        v.extend(self.free.iter().cloned());
        v
    }
    /// The thresholds t (x_i = 1 iff i >= t) the chain admits.
    fn thresholds(&self) -> Vec<usize> {
        if self.link == 3 {
            vec![0, self.n + 1]
        } else {
            (0..=self.n + 1).collect()
        }
    }
    fn anchors_at(&self, t: usize) -> [i32; 3] {
        [(0 >= t) as i32, (self.mid() >= t) as i32, (self.n >= t) as i32]
    }
    /// All feasible (threshold, values of the further variables) pairs, as small assignments.
    fn reference(&self) -> Vec<(usize, Vec<i32>)> {
        if let Some(q) = self.queens {
            return match queens_solution(q) {
                Some(sol) => {
                    let mut s = vec![0, 0, 0];
                    s.extend(sol);
                    vec![(usize::MAX, s)]
                }
                None => vec![],
            };
        }
        let mut frees: Vec<Vec<i32>> = vec![vec![]];
        for v in &self.free {
            let mut next = vec![];
            for f in &frees {
                for x in &v.values {
                    let mut g = f.clone();
                    g.push(*x);
                    next.push(g);
                }
            }
            frees = next;
        }
        let mut out = vec![];
        if self.link == 4 {
            // no links: the chain variables are unconstrained padding; the anchors take any values
            for bits in 0..8usize {
                let a = [(bits & 1) as i32, ((bits >> 1) & 1) as i32, ((bits >> 2) & 1) as i32];
                for f in &frees {
                    let mut s = a.to_vec();
                    s.extend_from_slice(f);
                    if self.side.iter().all(|c| c.holds(&s)) {
                        out.push((usize::MAX, s));
                    }
                }
            }
            return out;
        }
        for t in self.thresholds() {
            let a = self.anchors_at(t);
            for f in &frees {
                let mut s = a.to_vec();
                s.extend_from_slice(f);
                if self.side.iter().all(|c| c.holds(&s)) {
                    out.push((t, s));
                }
            }
        }
        out
    }

    pub fn to_json(&self) -> J {
        J::obj(vec![
            ("type", J::s("deep")),
            ("prop", J::s(&self.prop)),
            ("n", J::u(self.n as u64)),
            ("link", J::i(self.link)),
            ("reverse_post", J::Bool(self.reverse_post)),
            ("free", J::Arr(self.free.iter().map(|v| v.to_json()).collect())),
            ("side", J::Arr(self.side.iter().map(|c| c.to_json()).collect())),
            ("op", self.op.to_json()),
            ("order", J::Arr(self.order.iter().map(|x| J::u(*x as u64)).collect())),
            ("chain_first", J::Bool(self.chain_first)),
            ("chain_reversed", J::Bool(self.chain_reversed)),
            ("brancher", self.brancher.to_json()),
            ("configs", J::Arr(self.configs.iter().map(|k| k.to_json()).collect())),
            ("queens", match self.queens { Some(q) => J::u(q as u64), None => J::Null }),
        ])
    }
    pub fn from_json(j: &J) -> DeepCase {
        DeepCase {
            prop: j.at("prop").as_str().to_string(),
            n: j.at("n").as_usize(),
            link: j.at("link").as_i64() as u8,
            reverse_post: j.at("reverse_post").as_bool(),
            free: j.at("free").as_arr().iter().map(VarDecl::from_json).collect(),
            side: j.at("side").as_arr().iter().map(Con::from_json).collect(),
            op: Op::from_json(j.at("op")),
            order: j.at("order").as_arr().iter().map(|x| x.as_usize()).collect(),
            chain_first: j.at("chain_first").as_bool(),
            chain_reversed: j.at("chain_reversed").as_bool(),
            brancher: BrancherSpec::from_json(j.at("brancher")),
            configs: j.at("configs").as_arr().iter().map(Knobs::from_json).collect(),
            queens: j.get("queens").and_then(|q| if matches!(q, J::Null) { None } else { Some(q.as_usize()) }),
        }
    }

    pub fn generate(prop: &str, rng: &mut Rng, thorough: bool) -> DeepCase {
        use crate::gen::{gen_domain, gen_view, Kind, ModelGen, Swarm};
        let n = if thorough { *rng.pick(&[40usize, 300, 520, 700, 900, 1100, 2200]) } else { *rng.pick(&[40usize, 520, 600, 700, 700, 900, 1100]) };
        // the end of the chain the brancher decides first (its value runs through the whole chain);
        // the other end is the one the tight constraints talk about
        let decided_end: usize = if rng.chance(0.5) { 0 } else { 2 };
        let far_end = 2 - decided_end;
        let nfree = rng.range(2, 4) as usize;
        let mut free = vec![];
        let mut space = 1usize;
        for _ in 0..nfree {
            let d = gen_domain(rng, 4);
            if space * d.values.len() > 200 {
                break;
            }
            space *= d.values.len();
            free.push(VarDecl { link: None, ..d });
        }
        let mut c = DeepCase {
            prop: prop.to_string(),
            n,
            link: *rng.pick(&[0u8, 0, 0, 1, 1, 2, 3]),
            reverse_post: rng.chance(0.3),
            free,
            side: vec![],
            op: Op::Satisfy { interrupt: None },
            order: vec![],
            chain_first: rng.chance(0.3),
            chain_reversed: rng.chance(0.3),
            brancher: BrancherSpec::Default,
            configs: vec![],
            queens: None,
        };
        // side constraints over the anchors and the further variables; the kinds without literals
        let pool = [Kind::LinLe, Kind::LinLe, Kind::LinEq, Kind::LinNe, Kind::BinEq, Kind::BinNe, Kind::BinLe, Kind::BinLt, Kind::Max, Kind::Min, Kind::Plus, Kind::AllDiff, Kind::Element];
        let mut sw = Swarm::draw(rng, &pool, thorough);
        sw.reif_rate = 0.0;
        sw.pred_lits = 0.0;
        sw.alias = false;
        let small = c.small_vars();
        let k = rng.range(1, 4) as usize;
        for _ in 0..k {
            let mut g = ModelGen { rng, sw: &sw, vars: small.clone(), planted: None };
            if let Some(con) = g.constraint() {
                c.side.push(con);
            }
        }
        // tight linear constraints over an end of the chain and the further variables: only
        // some combinations are feasible, so the search runs into conflicts whose reasons reach
        // back through the chain
        for _ in 0..rng.range(2, 4) {
            let mut scope: Vec<usize> = vec![if rng.chance(0.8) { far_end } else { decided_end }];
            if rng.chance(0.2) {
                scope.push(2 - scope[0]);
            }
            for j in 3..small.len() {
                if rng.chance(0.8) {
                    scope.push(j);
                }
            }
            let terms: Vec<View> = scope.iter().map(|v| View { var: *v, scale: *rng.pick(&[1, 1, -1, -1, 2, -2]), off: 0 }).collect();
            let hi: i128 = terms.iter().map(|t| small[t.var].values.iter().map(|x| t.eval_value(*x)).max().unwrap()).sum();
            let lo: i128 = terms.iter().map(|t| small[t.var].values.iter().map(|x| t.eval_value(*x)).min().unwrap()).sum();
            if hi > lo {
                let rhs = hi - rng.range(1, (hi - lo).min(3) as i64) as i128;
                c.side.push(Con::LinLe(terms, rhs as i32));
            }
        }
        if small.len() >= 5 && rng.chance(0.5) {
            c.side.push(Con::BinLe(View::plain(3), View::plain(4)));
        }
        let ns = small.len();
        c.op = match rng.below(6) {
            0 | 1 => Op::Satisfy { interrupt: None },
            2 => Op::Iterate { max: rng.range(2, 12) as usize, interrupt: None },
            3 | 4 => Op::Optimise { obj: gen_view(rng, ns, true), minimise: rng.chance(0.5), sat_unsat: true, interrupt: None },
            _ => Op::Optimise { obj: gen_view(rng, ns, true), minimise: rng.chance(0.5), sat_unsat: false, interrupt: None },
        };
        let mut order: Vec<usize> = (0..ns).collect();
        for i in (1..order.len()).rev() {
            let j = rng.below(i + 1);
            order.swap(i, j);
        }
        c.order = order;
        c.brancher = match rng.below(5) {
            // input order with the largest / smallest value first: deciding an end of the chain
            // propagates through all of it, later conflicts have reasons n propagations deep
            0..=2 => {
                let end = decided_end;
                c.order.retain(|x| *x != end);
                c.order.insert(0, end);
                c.chain_first = false;
                BrancherSpec::Builtin { var_sel: 2, val_sel: if (end == 0) == rng.chance(0.8) { 1 } else { 4 } }
            }
            3 => BrancherSpec::random_builtin(rng),
            _ => BrancherSpec::random_sched(rng),
        };
        if prop == "C18" || (prop == "C01" && rng.chance(0.6)) {
            // the built-in strategies (also alternating / dynamic / autonomous) over hundreds of
            // barely constrained variables, restarts included
            c.brancher = BrancherSpec::random_builtin(rng);
            if rng.chance(0.4) {
                c.brancher = BrancherSpec::Alternating { strategy: rng.below(4) as u8, var_sel: rng.below(11) as u8, val_sel: rng.below(14) as u8 };
            }
            c.n = *rng.pick(&[12usize, 40, 40, 120, 300]);
            if rng.chance(0.45) {
                // N-queens (conflicts, hence restarts and switches of an alternating brancher)
                // plus unconstrained 0-1 padding
                let q = *rng.pick(&[5usize, 6, 8, 8, 10]);
                c.queens = Some(q);
                c.link = 4;
                c.n = *rng.pick(&[8usize, 20, 40]);
                c.free = (0..q).map(|_| VarDecl::interval(0, q as i32 - 1)).collect();
                let rows = |f: &dyn Fn(usize) -> i32| -> Vec<View> { (0..q).map(|i| View { var: 3 + i, scale: 1, off: f(i) }).collect() };
                c.side = vec![Con::AllDiff(rows(&|_| 0)), Con::AllDiff(rows(&|i| i as i32)), Con::AllDiff(rows(&|i| -(i as i32)))];
                c.op = if rng.chance(0.6) { Op::Satisfy { interrupt: None } } else { Op::Iterate { max: rng.range(2, 6) as usize, interrupt: None } };
                c.order = (0..3 + q).collect();
                for i in (1..c.order.len()).rev() {
                    let j = rng.below(i + 1);
                    c.order.swap(i, j);
                }
                let (vs, ls) = if rng.chance(0.4) { (2u8, 4u8) } else { (rng.below(11) as u8, rng.below(14) as u8) };
                c.brancher = match rng.below(4) {
                    0 => BrancherSpec::random_builtin(rng),
                    _ => BrancherSpec::Alternating { strategy: rng.below(4) as u8, var_sel: vs, val_sel: ls },
                };
            } else if rng.chance(0.6) {
                // unconstrained padding around a small model that has conflicts
                c.link = 4;
                for _ in 0..rng.range(2, 4) {
                    let mut g = ModelGen { rng, sw: &sw, vars: small.clone(), planted: None };
                    if let Some(con) = g.constraint() {
                        c.side.push(con);
                    }
                }
            }
            let mut k = Knobs::random(rng);
            k.uip = true;
            if rng.chance(0.5) {
                // restarts are considered every few conflicts
                k.no_restarts = false;
                k.seq = 0;
                k.base = rng.range(1, 4) as u64;
                k.first = 0;
                k.lbd_coef = 0.0;
                k.num_assigned_coef = 0.0;
            }
            if c.queens.is_some() && rng.chance(0.7) {
                k.no_restarts = false;
                k.seq = 0;
                k.base = rng.range(1, 4) as u64;
                k.first = rng.range(0, 3) as u64;
                k.lbd_coef = 0.0;
                k.num_assigned_coef = 0.0;
            }
            c.configs = vec![k];
            return c;
        }
        if prop == "C03" {
            // complete enumeration: with all chain variables equal the model has few solutions
            // (two thresholds x the further assignments), each found after backtracking through
            // implication chains n propagations deep
            if rng.chance(0.7) {
                c.link = 3;
            }
            c.n = *rng.pick(&[520usize, 600, 700, 900]);
            c.op = Op::Iterate { max: if c.link == 3 { 100_000 } else { rng.range(4, 40) as usize }, interrupt: None };
        }
        // the configurations: a random one, the same with minimisation flipped, two more random
        // ones (learning everywhere: the no-learning resolver is a different search on models of
        // this size and does not support the assumption-based optimisation, KF-001)
        let mut base = Knobs::random(rng);
        base.uip = true;
        let mut flipped = base.clone();
        flipped.minimise = !base.minimise;
        let mut configs = vec![base, flipped];
        for _ in 0..rng.range(0, 2) {
            let mut k = Knobs::random(rng);
            k.uip = true;
            configs.push(k);
        }
        c.configs = configs;
        c
    }

    pub fn candidates(&self) -> Vec<DeepCase> {
        let mut out = vec![];
        for m in [self.n / 2, self.n * 3 / 4, self.n.saturating_sub(50), self.n.saturating_sub(1)] {
            if m >= 2 && m < self.n {
                let mut c = self.clone();
                c.n = m;
                out.push(c);
            }
        }
        if let Some(q) = self.queens {
            if q > 4 {
                let mut c = self.clone();
                let q2 = q - 1;
                c.queens = Some(q2);
                c.free = (0..q2).map(|_| VarDecl::interval(0, q2 as i32 - 1)).collect();
                let rows = |f: &dyn Fn(usize) -> i32| -> Vec<View> { (0..q2).map(|i| View { var: 3 + i, scale: 1, off: f(i) }).collect() };
                c.side = vec![Con::AllDiff(rows(&|_| 0)), Con::AllDiff(rows(&|i| i as i32)), Con::AllDiff(rows(&|i| -(i as i32)))];
                c.order.retain(|x| *x < 3 + q2);
                out.push(c);
            }
        }
        for i in (0..self.configs.len()).rev() {
            if self.configs.len() > 1 {
                let mut c = self.clone();
                c.configs.remove(i);
                out.push(c);
            }
        }
        for i in (0..self.side.len()).rev() {
            if self.queens.is_some() {
                break;
            }
            let mut c = self.clone();
            c.side.remove(i);
            out.push(c);
        }
        if !matches!(self.op, Op::Satisfy { .. }) {
            let mut c = self.clone();
            c.op = Op::Satisfy { interrupt: None };
            out.push(c);
        }
        if self.brancher != BrancherSpec::Default {
            let mut c = self.clone();
            c.brancher = BrancherSpec::Default;
            out.push(c);
        }
        if self.link != 0 {
            let mut c = self.clone();
            c.link = 0;
            out.push(c);
        }
        for (flag, set) in [(self.reverse_post, 0), (self.chain_first, 1), (self.chain_reversed, 2)] {
            if flag {
                let mut c = self.clone();
                match set {
                    0 => c.reverse_post = false,
                    1 => c.chain_first = false,
                    _ => c.chain_reversed = false,
                }
                out.push(c);
            }
        }
        out
    }

    pub fn run(&self) -> Outcome {
        let mut stats = Stats::default();
        let mut trace = crate::rng::fnv(self.to_json().to_string().as_bytes());
        let reference = self.reference();
        let mut violation = None;
        for (ci, knobs) in self.configs.iter().enumerate() {
            match self.run_config(knobs, &reference, &mut stats, &mut trace) {
                Ok(()) => {}
                Err(mut v) => {
                    v.msg = format!("configuration #{ci} ({}): {}", knobs.to_json().to_string(), v.msg);
                    violation = Some(v);
                    break;
                }
            }
        }
        Outcome { violation, trace, stats, polls_per_op: vec![], aborted: None }
    }

    fn run_config(&self, knobs: &Knobs, reference: &[(usize, Vec<i32>)], stats: &mut Stats, trace: &mut u64) -> Result<(), Violation> {
        verif_hooks::enable(true);
        verif_hooks::enable_explanations(false);
        let _ = verif_hooks::drain();
        let mut solver = Solver::with_options(knobs.options(ProofLog::default()));
        let n = self.n;
        // solver variables: chain 0..=n, then the further variables
        let mut vars: Vec<DomainId> = (0..=n).map(|_| solver.new_bounded_integer(0, 1)).collect();
        let mut binding = Binding::default();
        for d in &self.free {
            binding.add_var(&mut solver, d, None);
        }
        vars.extend(binding.vars.iter().copied());
        // a binding over the small indexing for the side constraints and the objective
        let mut small_binding = Binding::default();
        let ns = 3 + self.free.len();
        for s in 0..ns {
            small_binding.vars.push(vars[self.full(s)]);
            small_binding.lits.push(None);
        }
        let mut infeasible_at_post = false;
        let links: Vec<usize> = if self.reverse_post { (0..n).rev().collect() } else { (0..n).collect() };
        // a binding over the chain for the links
        let mut chain_binding = Binding::default();
        for v in vars.iter().take(n + 1) {
            chain_binding.vars.push(*v);
            chain_binding.lits.push(None);
        }
        for i in links {
            if self.link == 4 {
                break;
            }
            let c = match self.link {
                0 => Con::BinLe(View::plain(i), View::plain(i + 1)),
                1 => Con::LinLe(vec![View::plain(i), View { var: i + 1, scale: -1, off: 0 }], 0),
                2 => Con::PredClause(vec![Pred { var: i, k: Pk::Le, val: 0 }, Pred { var: i + 1, k: Pk::Ge, val: 1 }]),
                _ => Con::BinEq(View::plain(i), View::plain(i + 1)),
            };
            if adapter::post(&mut solver, &chain_binding, &c, None).is_err() {
                infeasible_at_post = true;
            }
        }
        for c in &self.side {
            if adapter::post(&mut solver, &small_binding, c, None).is_err() {
                infeasible_at_post = true;
            }
        }
        if infeasible_at_post && !reference.is_empty() {
            return Err(viol("H-DEEP:post-error-but-solutions", format!("posting reported infeasibility but the model has {} solutions, e.g. threshold {} with {:?}", reference.len(), reference[0].0, reference[0].1)));
        }
        // the order in which the brancher sees the variables
        let mut chain: Vec<DomainId> = vars.iter().take(n + 1).copied().collect();
        if self.chain_reversed {
            chain.reverse();
        }
        let smalls: Vec<DomainId> = self.order.iter().filter(|s| **s < ns).map(|s| vars[self.full(*s)]).collect();
        let mut ordered: Vec<DomainId> = vec![];
        let mut push = |d: DomainId, ordered: &mut Vec<DomainId>| {
            if !ordered.contains(&d) {
                ordered.push(d);
            }
        };
        if self.chain_first {
            for d in chain.iter().take(3) {
                push(*d, &mut ordered);
            }
        }
        for d in &smalls {
            push(*d, &mut ordered);
        }
        let seen: std::collections::HashSet<DomainId> = ordered.iter().copied().collect();
        for d in &chain {
            if !seen.contains(d) {
                ordered.push(*d);
            }
        }
        let occ: Vec<u32> = vec![2; ordered.len()];
        let sb = small_binding.clone();
        let f = move |p: &Pred| sb.pred(p);
        let mut br = build_brancher(&self.brancher, &solver, &ordered, &occ, &f);
        let budget: u64 = if self.queens.is_some() { 12_000 } else { 50_000 };
        let mut clock = FaultClock::never(budget);
        let read = |s: &dyn Fn(DomainId) -> i32| -> (Vec<i32>, Vec<i32>) {
            let chain_vals: Vec<i32> = vars.iter().take(n + 1).map(|d| s(*d)).collect();
            let small_vals: Vec<i32> = (0..ns).map(|i| s(vars[self.full(i)])).collect();
            (chain_vals, small_vals)
        };
        let check_solution = |chain_vals: &[i32], small_vals: &[i32]| -> Result<(), Violation> {
            for i in 0..n {
                if self.link == 4 {
                    break;
                }
                let ok = if self.link == 3 { chain_vals[i] == chain_vals[i + 1] } else { chain_vals[i] <= chain_vals[i + 1] };
                if !ok {
                    return Err(viol("H-DEEP:non-solution", format!("the returned assignment has x{} = {} and x{} = {}, which violates the chain", i, chain_vals[i], i + 1, chain_vals[i + 1])));
                }
            }
            if let Some(c) = self.side.iter().find(|c| !c.holds(small_vals)) {
                return Err(viol("H-DEEP:non-solution", format!("the returned assignment {small_vals:?} (anchors x0, x_mid, x_n, then the further variables) violates {}", c.to_json().to_string())));
            }
            Ok(())
        };
        let result: Result<(), Violation> = match &self.op {
            Op::Satisfy { .. } => {
                let r = with_brancher!(&mut br, b => solver.satisfy(b, &mut clock));
                match r {
                    SatisfactionResult::Satisfiable(s) => {
                        let (cv, sv) = read(&|d| s.get_integer_value(d));
                        stats.solutions += 1;
                        check_solution(&cv, &sv)
                    }
                    SatisfactionResult::Unsatisfiable => {
                        if reference.is_empty() {
                            Ok(())
                        } else {
                            Err(viol("H-DEEP:unsat-but-solutions", format!("Unsatisfiable but the model has {} solutions, e.g. threshold {} with {:?}", reference.len(), reference[0].0, reference[0].1)))
                        }
                    }
                    SatisfactionResult::Unknown => {
                        stats.inconclusive += 1;
                        Ok(())
                    }
                }
            }
            Op::Iterate { max, .. } => {
                let mut seen: Vec<(Vec<i32>, Vec<i32>)> = vec![];
                let mut ended = false;
                let mut err = None;
                with_brancher!(&mut br, b => {
                    let mut it = solver.get_solution_iterator(b, &mut clock);
                    while seen.len() < *max {
                        match it.next_solution() {
                            IteratedSolution::Solution(s, _, _) => {
                                let (cv, sv) = read(&|d| s.get_integer_value(d));
                                if let Err(e) = check_solution(&cv, &sv) {
                                    err = Some(e);
                                    break;
                                }
                                if seen.iter().any(|(c2, s2)| *c2 == cv && *s2 == sv) {
                                    err = Some(viol("H-DEEP:solution-repeated", format!("the iterator returned the assignment {sv:?} twice")));
                                    break;
                                }
                                seen.push((cv, sv));
                                verif_hooks::mark(u64::MAX);
                            }
                            IteratedSolution::Finished | IteratedSolution::Unsatisfiable => {
                                ended = true;
                                break;
                            }
                            IteratedSolution::Unknown => break,
                        }
                    }
                });
                stats.solutions += seen.len() as u64;
                match err {
                    Some(e) => Err(e),
                    None if ended && self.link != 4 && seen.len() != reference.len() => {
                        Err(viol("H-DEEP:enumeration-incomplete", format!("the iterator reported the end after {} solutions but the model has {}", seen.len(), reference.len())))
                    }
                    None => Ok(()),
                }
            }
            Op::Optimise { obj, minimise, sat_unsat, .. } => {
                let dir = if *minimise { OptimisationDirection::Minimise } else { OptimisationDirection::Maximise };
                let view = small_binding.view(obj);
                let r = with_brancher!(&mut br, b => {
                    // every incumbent segments the stream of learned nogoods: what is learned after
                    // it only has to hold for strictly better solutions
                    fn cb<B>(view: pumpkin_solver::variables::AffineView<DomainId>) -> impl Fn(&Solver, SolutionReference, &B) {
                        move |_: &Solver, s: SolutionReference, _: &B| verif_hooks::mark(s.get_integer_value(view) as i64 as u64)
                    }
                    if *sat_unsat {
                        solver.optimise(b, &mut clock, LinearSatUnsat::new(dir, view, cb(view)))
                    } else {
                        solver.optimise(b, &mut clock, LinearUnsatSat::new(dir, view, cb(view)))
                    }
                });
                let best = reference.iter().map(|(_, s)| obj.eval(s)).reduce(|x, y| if *minimise == (y < x) { y } else { x });
                let judge = |s: &Solution, optimal: bool| -> Result<(), Violation> {
                    let (cv, sv) = read(&|d| s.get_integer_value(d));
                    check_solution(&cv, &sv)?;
                    if optimal && Some(obj.eval(&sv)) != best {
                        return Err(viol("H-DEEP:not-optimal", format!("Optimal with objective {} but the optimum is {best:?}", obj.eval(&sv))));
                    }
                    Ok(())
                };
                match r {
                    OptimisationResult::Optimal(s) => {
                        stats.solutions += 1;
                        judge(&s, true)
                    }
                    OptimisationResult::Satisfiable(s) => {
                        stats.inconclusive += 1;
                        judge(&s, false)
                    }
                    OptimisationResult::Unsatisfiable => {
                        if reference.is_empty() {
                            Ok(())
                        } else {
                            Err(viol("H-DEEP:unsat-but-solutions", format!("Unsatisfiable but the model has {} solutions", reference.len())))
                        }
                    }
                    OptimisationResult::Unknown => {
                        stats.inconclusive += 1;
                        Ok(())
                    }
                }
            }
            _ => Ok(()),
        };
        stats.polls += clock.polls;
        stats.solves += 1;
        // I-LEARNED on the analytic reference: a learned nogood must not hold in any solution
        // (of those still admitted: after an incumbent only the strictly better ones; after the
        // first solution of an iteration the blocking clauses take part and the check stops)
        let mut by_free: std::collections::BTreeMap<Vec<i32>, Vec<usize>> = std::collections::BTreeMap::new();
        for (t, sv) in reference {
            by_free.entry(sv[3..].to_vec()).or_default().push(*t);
        }
        let chain_index: std::collections::HashMap<DomainId, usize> = vars.iter().take(n + 1).enumerate().map(|(i, d)| (*d, i)).collect();
        let free_index: std::collections::HashMap<DomainId, usize> = vars.iter().skip(n + 1).enumerate().map(|(j, d)| (*d, j)).collect();
        let mut bound: Option<i128> = None;
        let mut checking = self.link != 4;
        let objective: Option<(View, bool)> = match &self.op {
            Op::Optimise { obj, minimise, .. } => Some((*obj, *minimise)),
            _ => None,
        };
        let mut learned_violation: Option<Violation> = None;
        for ev in verif_hooks::drain() {
            match ev {
                verif_hooks::Event::Mark(v) => {
                    if objective.is_some() {
                        bound = Some(v as i64 as i128);
                    } else {
                        checking = false;
                    }
                }
                verif_hooks::Event::Learned { predicates, .. } => {
                    stats.learned += 1;
                    *trace = (*trace ^ predicates.len() as u64).wrapping_mul(0x0000_0100_0000_01b3);
                    if !checking || learned_violation.is_some() {
                        continue;
                    }
                    // the thresholds the chain predicates admit, and the predicates over the
                    // further variables
                    let (mut lo, mut hi) = (0usize, n + 1);
                    let mut frees: Vec<(usize, &pumpkin_solver::predicates::Predicate)> = vec![];
                    let mut impossible = false;
                    let mut foreign = false;
                    let holds = |p: &pumpkin_solver::predicates::Predicate, x: i32| {
                        let r = p.get_right_hand_side();
                        if p.is_lower_bound_predicate() {
                            x >= r
                        } else if p.is_upper_bound_predicate() {
                            x <= r
                        } else if p.is_equality_predicate() {
                            x == r
                        } else {
                            x != r
                        }
                    };
                    for p in &predicates {
                        if let Some(i) = chain_index.get(&p.get_domain()) {
                            match (holds(p, 0), holds(p, 1)) {
                                (true, true) => {}
                                (false, true) => hi = hi.min(*i),       // x_i = 1: t <= i
                                (true, false) => lo = lo.max(*i + 1),   // x_i = 0: t > i
                                (false, false) => impossible = true,
                            }
                        } else if let Some(j) = free_index.get(&p.get_domain()) {
                            frees.push((*j, p));
                        } else if !crate::adapter::foreign_pred_value(p) {
                            impossible = true;
                        } else {
                            foreign = foreign || false;
                        }
                    }
                    if impossible || lo > hi {
                        continue;
                    }
                    stats.expl_checked += 1;
                    for (fv, ts) in &by_free {
                        if !frees.iter().all(|(j, p)| holds(p, fv[*j])) {
                            continue;
                        }
                        if let (Some(b), Some((obj, minimise))) = (bound, objective) {
                            // the objective only reads anchors and further variables; judged per threshold below
                            let _ = (b, obj, minimise);
                        }
                        for t in ts.iter().filter(|t| **t >= lo && **t <= hi) {
                            let mut sv = self.anchors_at(*t).to_vec();
                            sv.extend_from_slice(fv);
                            if let (Some(b), Some((obj, minimise))) = (bound, objective) {
                                let v = obj.eval(&sv);
                                let better = if minimise { v < b } else { v > b };
                                if !better {
                                    continue;
                                }
                            }
                            learned_violation = Some(viol(
                                "I-LEARNED:nogood-excludes-solution",
                                format!("the learned nogood {predicates:?} holds in the solution with threshold {t} (x_i = 1 iff i >= {t}) and small assignment {sv:?}"),
                            ));
                            break;
                        }
                        if learned_violation.is_some() {
                            break;
                        }
                    }
                }
                verif_hooks::Event::Decision { predicate, already_assigned, all_variables_assigned, .. } => {
                    stats.decisions += 1;
                    if self.prop == "C18" && learned_violation.is_none() {
                        stats.decisions_checked += 1;
                        match predicate {
                            Some(p) if already_assigned => {
                                learned_violation = Some(viol("I-DECISION:already-assigned", format!("the brancher proposed {p:?} which is already decided")));
                            }
                            Some(p) if !chain_index.contains_key(&p.get_domain()) && !free_index.contains_key(&p.get_domain()) => {
                                learned_violation = Some(viol("I-DECISION:foreign-variable", format!("the brancher proposed {p:?} over a variable it is not responsible for")));
                            }
                            None if !all_variables_assigned => {
                                learned_violation = Some(viol("I-DECISION:none-with-unfixed-variables", "the brancher proposed nothing although some of its variables are unfixed".to_string()));
                            }
                            _ => {}
                        }
                    }
                }
                _ => {}
            }
        }
        let result = match (result, learned_violation) {
            (Err(e), _) => Err(e),
            (Ok(()), Some(v)) => Err(v),
            (Ok(()), None) => Ok(()),
        };
        for (k, v) in verif_hooks::drain_probes() {
            *stats.probes.entry(k.to_string()).or_insert(0) += v;
        }
        *trace = (*trace ^ clock.polls).wrapping_mul(0x0000_0100_0000_01b3);
        result
    }
}
