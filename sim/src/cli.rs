//! K4: the command-line binary (built from /repo without the hooks feature) as the system under
//! test: generated CNF / WCNF / FlatZinc files, seeded configuration flags, stdout and proof files
//! checked against the reference model; TwinRun for reproducibility (C20).
use std::collections::BTreeSet;
use std::process::{Command, Stdio};
use std::sync::atomic::{AtomicU64, Ordering};
use std::time::{Duration, Instant};

use crate::dimacs_stream::render;
use crate::exec::{Outcome, Stats, Violation};
use crate::fzn::FznModel;
use crate::json::J;
use crate::rng::{fnv, Rng};

pub fn cli_binary() -> String {
    std::env::var("VERIF_CLI").unwrap_or_else(|_| format!("{}/target/cli/debug/pumpkin-solver", crate::verif_root()))
}

static RUN_COUNTER: AtomicU64 = AtomicU64::new(0);

pub struct RunResult {
    pub stdout: String,
    pub stderr: String,
    pub code: Option<i32>,
    pub timed_out: bool,
    pub proof: Option<Vec<u8>>,
    pub lits: Option<Vec<u8>>,
}

/// Runs the binary on `text` (written to a scratch directory which is removed afterwards).
/// `perturb` changes the ambient conditions that must not matter: directory name, environment
/// size, allocator perturbation.
pub fn run_binary(ext: &str, text: &str, args: &[String], want_proof: bool, perturb: u64, secs: u64) -> RunResult {
    let n = RUN_COUNTER.fetch_add(1, Ordering::SeqCst);
    // directory names of equal length, so that paths in the output (if any) have equal length
    let dir = format!("{}/.work/cli-{:08}-{:06}-{}", crate::verif_root(), std::process::id(), n % 1_000_000, (b'a' + (perturb % 26) as u8) as char);
    let _ = std::fs::create_dir_all(&dir);
    let file = format!("{dir}/inst.{ext}");
    std::fs::write(&file, text).expect("write instance");
    let proof_path = format!("{dir}/proof.drcp");
    let mut cmd = Command::new(cli_binary());
    cmd.args(args);
    if want_proof {
        cmd.arg("--proof-path").arg(&proof_path);
    }
    cmd.arg(&file);
    cmd.current_dir(&dir);
    cmd.env_clear();
    cmd.env("PATH", "/usr/bin:/bin");
    if perturb != 0 {
        cmd.env("MALLOC_PERTURB_", ((perturb % 250) + 1).to_string());
        cmd.env("VERIF_PADDING", "x".repeat((perturb % 1500) as usize));
        cmd.env("TZ", "Pacific/Kiritimati");
    }
    cmd.stdin(Stdio::null()).stdout(Stdio::piped()).stderr(Stdio::piped());
    let start = Instant::now();
    let mut result = RunResult { stdout: String::new(), stderr: String::new(), code: None, timed_out: false, proof: None, lits: None };
    match cmd.spawn() {
        Ok(mut child) => {
            let mut out = child.stdout.take().unwrap();
            let mut err = child.stderr.take().unwrap();
            let t1 = std::thread::spawn(move || {
                let mut s = Vec::new();
                let _ = std::io::Read::read_to_end(&mut out, &mut s);
                s
            });
            let t2 = std::thread::spawn(move || {
                let mut s = Vec::new();
                let _ = std::io::Read::read_to_end(&mut err, &mut s);
                s
            });
            loop {
                match child.try_wait() {
                    Ok(Some(st)) => {
                        result.code = st.code();
                        break;
                    }
                    Ok(None) => {
                        // the limit is CPU time of the solver process (a starved machine is not a
                        // non-terminating solver), with a generous wall-clock cap
                        let cpu = crate::supervisor::cpu_seconds(child.id()).unwrap_or(0.0);
                        if cpu > secs as f64 || start.elapsed() > Duration::from_secs(secs * 10) {
                            let _ = child.kill();
                            let _ = child.wait();
                            result.timed_out = true;
                            break;
                        }
                        std::thread::sleep(Duration::from_micros(300));
                    }
                    Err(_) => break,
                }
            }
            result.stdout = String::from_utf8_lossy(&t1.join().unwrap_or_default()).to_string();
            result.stderr = String::from_utf8_lossy(&t2.join().unwrap_or_default()).to_string();
        }
        Err(e) => {
            result.stderr = format!("cannot start {}: {e}", cli_binary());
        }
    }
    if want_proof {
        result.proof = std::fs::read(&proof_path).ok();
        result.lits = std::fs::read(format!("{proof_path}.lits")).ok().or_else(|| std::fs::read(format!("{dir}/proof.lits")).ok());
    }
    let _ = std::fs::remove_dir_all(&dir);
    result
}

#[derive(Clone, Debug, PartialEq)]
pub enum CliKind {
    Cnf { num_vars: usize, clauses: Vec<Vec<i32>> },
    /// clauses in file order; weight == top means hard
    Wcnf { num_vars: usize, clauses: Vec<(u64, Vec<i32>)>, top: u64 },
    Fzn(FznModel),
}

#[derive(Clone, Debug, PartialEq)]
pub struct CliCase {
    pub prop: String,
    pub kind: CliKind,
    pub text: String,
    pub args: Vec<String>,
    pub proof: bool,
    /// C20: two executions under perturbed ambient conditions must produce identical output
    pub twin: bool,
}

fn viol(class: &str, msg: String) -> Violation {
    Violation { class: class.to_string(), msg, op_index: 0 }
}

/// Whether the command-line configuration has a termination argument (the rule of
/// `Knobs::terminates` for the library runs): the no-learning resolver enumerates
/// chronologically; with learning, either restarts are off or the learned-clause database is
/// not kept tiny.
fn terminates(args: &[String]) -> bool {
    let value_of = |flag: &str| args.iter().position(|a| a == flag).and_then(|i| args.get(i + 1)).and_then(|v| v.parse::<i64>().ok());
    let no_restarts = args.iter().any(|a| a == "--no-restarts");
    let frequent_restarts = value_of("--restart-base-interval").is_some_and(|b| b <= 10);
    let tiny_database = value_of("--learning-max-num-clauses").is_some_and(|n| n < 100);
    no_restarts || !(frequent_restarts && tiny_database)
}

fn crash_class(r: &RunResult) -> Option<Violation> {
    if r.timed_out {
        return Some(viol("CLI:no-answer-within-time-limit", "the solver did not terminate within the per-run CPU-time limit (no time limit was given to it)".to_string()));
    }
    if r.code != Some(0) {
        let line = r.stderr.lines().chain(r.stdout.lines()).find(|l| l.contains("panicked") || l.contains("rror")).unwrap_or("").to_string();
        // the panic location, without line number noise from the message
        let site = line.split("panicked at ").nth(1).map(|s| s.split(':').next().unwrap_or("").rsplit("/src/").next().unwrap_or("").to_string()).unwrap_or_else(|| "error-exit".to_string());
        let next = r.stderr.lines().skip_while(|l| !l.contains("panicked")).nth(1).unwrap_or("").to_string();
        return Some(viol(&format!("CLI:crash:{site}"), format!("exit status {:?}: {line} {next}", r.code)));
    }
    None
}

fn sat_assignments(num_vars: usize, clauses: &[Vec<i32>]) -> impl Iterator<Item = u32> + '_ {
    (0u32..(1u32 << num_vars)).filter(move |m| clauses.iter().all(|c| c.iter().any(|l| lit_true(*l, *m, num_vars))))
}

fn lit_true(l: i32, mask: u32, num_vars: usize) -> bool {
    let v = l.unsigned_abs() as usize;
    if v > num_vars {
        return false;
    }
    ((mask >> (v - 1)) & 1 == 1) == (l > 0)
}

fn parse_model_line(stdout: &str) -> Option<Vec<i32>> {
    let line = stdout.lines().find(|l| l.starts_with("v "))?;
    Some(line[2..].split_whitespace().filter_map(|t| t.parse::<i32>().ok()).filter(|x| *x != 0).collect())
}

fn model_mask(model: &[i32], num_vars: usize) -> Result<u32, String> {
    let mut mask = 0u32;
    for v in 1..=num_vars as i32 {
        let pos = model.contains(&v);
        let neg = model.contains(&-v);
        if pos == neg {
            return Err(format!("the model line does not assign variable {v} exactly once"));
        }
        if pos {
            mask |= 1 << (v - 1);
        }
    }
    Ok(mask)
}

/// Forward RUP check of a DRAT-style clause list against the formula.
fn check_rup(num_vars: usize, formula: &[Vec<i32>], proof_text: &str) -> Result<(), String> {
    // duplicate literals inside a clause must not count twice during unit propagation
    let dedup = |c: &Vec<i32>| -> Vec<i32> {
        let mut d = c.clone();
        d.sort();
        d.dedup();
        d
    };
    let mut db: Vec<Vec<i32>> = formula.iter().map(dedup).collect();
    let mut saw_empty = false;
    for (ln, line) in proof_text.lines().enumerate() {
        let line = line.trim();
        if line.is_empty() || line.starts_with('c') {
            continue;
        }
        if line.starts_with('d') {
            continue; // deletions only weaken; ignoring them keeps the check sound
        }
        let mut lits: Vec<i32> = vec![];
        let mut terminated = false;
        for t in line.split_whitespace() {
            let x: i32 = t.parse().map_err(|_| format!("proof line {}: bad token {t:?}", ln + 1))?;
            if x == 0 {
                terminated = true;
                break;
            }
            lits.push(x);
        }
        if !terminated {
            return Err(format!("proof line {} is not terminated by 0", ln + 1));
        }
        // assign the negation of the clause and propagate
        let n = num_vars.max(lits.iter().map(|l| l.unsigned_abs() as usize).max().unwrap_or(0)).max(db.iter().flatten().map(|l| l.unsigned_abs() as usize).max().unwrap_or(0));
        let mut val: Vec<i8> = vec![0; n + 1];
        let mut conflict = false;
        for l in &lits {
            let v = l.unsigned_abs() as usize;
            let want = if *l > 0 { -1 } else { 1 };
            if val[v] == -want {
                conflict = true; // the clause is a tautology
            }
            val[v] = want;
        }
        let mut changed = true;
        while changed && !conflict {
            changed = false;
            for c in &db {
                let mut unassigned = None;
                let mut n_un = 0;
                let mut sat = false;
                for l in c {
                    let v = l.unsigned_abs() as usize;
                    let s = if *l > 0 { 1 } else { -1 };
                    if val[v] == s {
                        sat = true;
                        break;
                    }
                    if val[v] == 0 {
                        n_un += 1;
                        unassigned = Some(*l);
                    }
                }
                if sat {
                    continue;
                }
                if n_un == 0 {
                    conflict = true;
                    break;
                }
                if n_un == 1 {
                    let l = unassigned.unwrap();
                    val[l.unsigned_abs() as usize] = if l > 0 { 1 } else { -1 };
                    changed = true;
                }
            }
        }
        if !conflict {
            return Err(format!("proof line {} ({line:?}) does not follow by reverse unit propagation", ln + 1));
        }
        if lits.is_empty() {
            saw_empty = true;
        }
        db.push(dedup(&lits));
    }
    if !saw_empty {
        return Err("the proof does not contain the empty clause".to_string());
    }
    Ok(())
}

/// Removes what legitimately differs between two runs: wall-clock statistics.
fn normalise_output(s: &str) -> String {
    s.lines().filter(|l| !l.to_ascii_lowercase().contains("time")).collect::<Vec<_>>().join("\n")
}

pub fn config_args(rng: &mut Rng, kind: &str) -> Vec<String> {
    let mut a: Vec<String> = vec![];
    let mut push = |x: &str| a.push(x.to_string());
    if rng.chance(0.4) {
        push("--conflict-resolver");
        push(if rng.chance(0.35) { "no-learning" } else { "uip" });
    }
    if rng.chance(0.3) {
        push("--no-learning-minimise");
    }
    match rng.below(5) {
        0 => push("--no-restarts"),
        1 | 2 => {
            push("--restart-base-interval");
            push(&rng.range(1, 4).to_string());
            push("--restart-min-initial-conflicts");
            push(&rng.range(0, 4).to_string());
            push("--restart-lbd-coef");
            push("0");
            if rng.chance(0.5) {
                push("--restart-sequence-generator-type");
                push(*rng.pick(&["constant", "luby", "geometric"]));
                push("--restart-geometric-coef");
                push("2.0");
            }
        }
        _ => {}
    }
    if rng.chance(0.4) {
        push("--learning-max-num-clauses");
        push(&rng.pick(&[0, 1, 2, 5, 4000]).to_string());
        push("--learning-lbd-threshold");
        push(&rng.pick(&[0, 1, 2, 5]).to_string());
        push("--learning-sorting-strategy");
        push(*rng.pick(&["lbd", "activity"]));
    }
    push("-r");
    push(&rng.range(0, 1000).to_string());
    if kind == "fzn" && rng.chance(0.5) {
        push("--cumulative-propagation-method");
        push(*rng.pick(&[
            "time-table-per-point",
            "time-table-per-point-incremental",
            "time-table-per-point-incremental-synchronised",
            "time-table-over-interval",
            "time-table-over-interval-incremental",
            "time-table-over-interval-incremental-synchronised",
        ]));
        push("--cumulative-explanation-type");
        push(*rng.pick(&["naive", "big-step", "pointwise"]));
        if rng.chance(0.5) {
            push("--cumulative-allow-holes");
        }
        if rng.chance(0.5) {
            push("--cumulative-generate-sequence");
        }
        if rng.chance(0.5) {
            push("--cumulative-incremental-backtracking");
        }
    }
    a
}

fn gen_clauses(rng: &mut Rng, num_vars: usize, n: usize, max_len: usize) -> Vec<Vec<i32>> {
    (0..n)
        .map(|_| {
            let k = match rng.below(10) {
                0 => 0,
                1 | 2 => 1,
                _ => rng.range(1, max_len as i64) as usize,
            };
            (0..k)
                .map(|_| {
                    let v = rng.range32(1, num_vars as i32);
                    if rng.chance(0.5) {
                        v
                    } else {
                        -v
                    }
                })
                .collect()
        })
        .collect()
}

impl CliCase {
    pub fn generate_cnf(prop: &str, rng: &mut Rng, twin: bool) -> CliCase {
        let num_vars = rng.range(1, 10) as usize;
        let ratio = *rng.pick(&[1usize, 2, 4, 5, 6]);
        let n = if rng.chance(0.1) { 0 } else { rng.range(1, (num_vars * ratio).max(1) as i64) as usize };
        let mut clauses = gen_clauses(rng, num_vars, n, 3);
        if rng.chance(0.9) {
            // empty clauses make everything trivially UNSAT; keep them rare
            clauses.retain(|c| !c.is_empty());
        }
        // a harder family: formulas that take dozens to hundreds of conflicts (pigeon-hole, or
        // random 3-SAT near the threshold), so that restarts and the clean-up of the learned
        // clause database (with the small limits of `config_args`) happen during the run
        let (num_vars, mut clauses) = if rng.chance(0.25) {
            if rng.chance(0.4) {
                let holes = rng.range(3, 4) as i32;
                let pigeons = holes + 1;
                let var = |p: i32, h: i32| p * holes + h + 1;
                let mut cs: Vec<Vec<i32>> = (0..pigeons).map(|p| (0..holes).map(|h| var(p, h)).collect()).collect();
                for h in 0..holes {
                    for p in 0..pigeons {
                        for q in p + 1..pigeons {
                            cs.push(vec![-var(p, h), -var(q, h)]);
                        }
                    }
                }
                if rng.chance(0.3) {
                    // drop one clause: usually satisfiable then
                    let i = rng.below(cs.len());
                    let _ = cs.remove(i);
                }
                ((pigeons * holes) as usize, cs)
            } else {
                let nv = rng.range(10, 15) as usize;
                let nc = (nv as f64 * (3.8 + rng.below(10) as f64 * 0.1)) as usize;
                let cs: Vec<Vec<i32>> = (0..nc)
                    .map(|_| {
                        let mut c: Vec<i32> = vec![];
                        while c.len() < 3 {
                            let v = rng.range32(1, nv as i32);
                            if !c.iter().any(|l: &i32| l.abs() == v) {
                                c.push(if rng.chance(0.5) { v } else { -v });
                            }
                        }
                        c
                    })
                    .collect();
                (nv, cs)
            }
        } else {
            (num_vars, clauses)
        };
        if rng.chance(0.2) && !clauses.is_empty() {
            let c = clauses[rng.below(clauses.len())].clone();
            clauses.push(c); // duplicate clause
        }
        if rng.chance(0.15) {
            let v = rng.range32(1, num_vars as i32);
            clauses.push(vec![v, -v]); // tautology
        }
        let wl: Vec<(u64, Vec<i32>)> = clauses.iter().map(|c| (0u64, c.clone())).collect();
        let wild = rng.chance(0.5);
        let mut text = render(rng, false, num_vars, &wl, 0, wild);
        if rng.chance(0.2) {
            // a leading comment which moves the 8 KiB boundary of the buffered reader onto a
            // seeded byte of the body
            let target = 8192usize.saturating_sub(rng.below(text.len().max(1)));
            let pad = target.saturating_sub(3);
            text = format!("c {}\n{}", "x".repeat(pad), text);
        }
        let mut args = config_args(rng, "cnf");
        // KF-008: with `--conflict-resolver no-learning` nothing is learned, so the DRAT file of a
        // refutation found by search is just the empty clause; outside a small slice no proof is
        // asked for together with that resolver
        let no_learning = args.iter().any(|a| a == "no-learning");
        let proof = rng.chance(0.6) && (!no_learning || rng.chance(0.05));
        if twin && rng.chance(0.7) {
            args.push("-s".to_string());
        }
        CliCase { prop: prop.to_string(), kind: CliKind::Cnf { num_vars, clauses }, text, args, proof, twin }
    }

    pub fn generate_wcnf(prop: &str, rng: &mut Rng, twin: bool) -> CliCase {
        let num_vars = rng.range(1, 7) as usize;
        let unweighted = rng.chance(0.4);
        let top = *rng.pick(&[20u64, 1000, (1 << 31) - 1]);
        let nh = rng.range(0, 6) as usize;
        let ns = rng.range(0, 7) as usize;
        let mut hard = gen_clauses(rng, num_vars, nh, 3);
        if rng.chance(0.9) {
            hard.retain(|c| !c.is_empty());
        }
        let w_all = if rng.chance(0.6) { 1 } else { rng.range(2, 9) as u32 };
        // a covering-shaped family (hard: x_i \/ x_j for the edges of a random graph, soft: -x_i
        // with weight 1): the first solution falsifies many soft clauses, so the upper-bound
        // encodings are built for bounds well above 2 and tightened step by step
        let covering = rng.chance(0.2);
        let (num_vars, unweighted, hard, w_all) = if covering {
            let n = rng.range(5, 11) as usize;
            let mut edges: Vec<Vec<i32>> = vec![];
            for i in 1..=n as i32 {
                for j in i + 1..=n as i32 {
                    if rng.chance(0.35) {
                        edges.push(vec![i, j]);
                    }
                }
            }
            (n, true, edges, 1u32)
        } else {
            (num_vars, unweighted, hard, w_all)
        };
        let soft_clauses: Vec<Vec<i32>> = if covering { (1..=num_vars as i32).map(|i| vec![-i]).collect() } else { gen_clauses(rng, num_vars, ns, 2) };
        let soft: Vec<(u32, Vec<i32>)> = soft_clauses
            .into_iter()
            .map(|c| {
                let w = if unweighted {
                    w_all
                } else if rng.chance(0.15) && top > 1000 {
                    rng.range(1_000_000, (top - 1) as i64 / 8) as u32
                } else {
                    rng.range(1, 9) as u32
                };
                (w, c)
            })
            .collect();
        let total: u64 = soft.iter().map(|(w, _)| *w as u64).sum();
        let top = top.max(total + 1).min((1 << 31) - 1);
        let mut all: Vec<(u64, Vec<i32>)> = hard.iter().map(|c| (top, c.clone())).collect();
        all.extend(soft.iter().map(|(w, c)| (*w as u64, c.clone())));
        // interleave hard and soft clauses
        for i in (1..all.len()).rev() {
            let j = rng.below(i + 1);
            all.swap(i, j);
        }
        let wild = rng.chance(0.3);
        let text = render(rng, true, num_vars, &all, top, wild);
        let mut args = config_args(rng, "wcnf");
        // the cardinality-network encoder states its own precondition ("only supported on
        // unweighted instances"), so it is only paired with instances whose soft clauses all
        // carry the same weight
        let softs: Vec<u64> = all.iter().filter(|(w, _)| *w != top).map(|(w, _)| *w).collect();
        let same_weight = softs.iter().all(|w| *w == softs[0]);
        args.push("--upper-bound-encoding".to_string());
        // KF-005: the encoder only handles objective terms of weight exactly 1 (an equal weight
        // w != 1 is not divided out of the bound, and duplicate unit soft clauses are merged
        // into one heavier term which trips the precondition); outside a small slice it is paired
        // with such instances only
        let units: Vec<i32> = all.iter().filter(|(w, c)| *w != top && c.len() == 1).map(|(_, c)| c[0]).collect();
        let dup_units = units.iter().enumerate().any(|(i, l)| units[..i].contains(l));
        let weight_one = softs.iter().all(|w| *w == 1) && !dup_units;
        let cne_ok = same_weight && (weight_one || rng.chance(0.03));
        args.push(if cne_ok && rng.chance(0.5) { "cardinality-network".to_string() } else { "generalized-totalizer".to_string() });
        if twin && rng.chance(0.7) {
            args.push("-s".to_string());
        }
        CliCase { prop: prop.to_string(), kind: CliKind::Wcnf { num_vars, clauses: all, top }, text, args, proof: false, twin }
    }

    pub fn generate_fzn(prop: &str, rng: &mut Rng, twin: bool) -> CliCase {
        let model = FznModel::generate(rng, true);
        let mut args = config_args(rng, "fzn");
        if model.mode == 0 && rng.chance(0.6) {
            args.push("-a".to_string());
        }
        if rng.chance(0.3) {
            args.push("-f".to_string());
        }
        if model.mode != 0 {
            args.push("--optimisation-strategy".to_string());
            args.push(rng.pick(&["linear-sat-unsat", "linear-unsat-sat"]).to_string());
        }
        let mut proof = false;
        if twin {
            if rng.chance(0.6) {
                args.push("-s".to_string());
            }
            if rng.chance(0.5) {
                proof = true;
                args.push("--proof-type".to_string());
                args.push(rng.pick(&["scaffold", "full", "with-hints"]).to_string());
            }
        }
        let text = model.emit();
        CliCase { prop: prop.to_string(), kind: CliKind::Fzn(model), text, args, proof, twin }
    }

    pub fn to_json(&self) -> J {
        let kind = match &self.kind {
            CliKind::Cnf { num_vars, clauses } => J::obj(vec![("k", J::s("cnf")), ("num_vars", J::u(*num_vars as u64)), ("clauses", J::Arr(clauses.iter().map(|c| J::ints(c)).collect()))]),
            CliKind::Wcnf { num_vars, clauses, top } => J::obj(vec![
                ("k", J::s("wcnf")),
                ("num_vars", J::u(*num_vars as u64)),
                ("top", J::u(*top)),
                ("clauses", J::Arr(clauses.iter().map(|(w, c)| J::obj(vec![("w", J::u(*w)), ("lits", J::ints(c))])).collect())),
            ]),
            CliKind::Fzn(m) => J::obj(vec![("k", J::s("fzn")), ("model", m.to_json())]),
        };
        J::obj(vec![
            ("type", J::s("cli")),
            ("prop", J::s(&self.prop)),
            ("kind", kind),
            ("text", J::s(&self.text)),
            ("args", J::Arr(self.args.iter().map(|a| J::s(a)).collect())),
            ("proof", J::Bool(self.proof)),
            ("twin", J::Bool(self.twin)),
        ])
    }

    pub fn from_json(j: &J) -> CliCase {
        let k = j.at("kind");
        let kind = match k.at("k").as_str() {
            "cnf" => CliKind::Cnf { num_vars: k.at("num_vars").as_usize(), clauses: k.at("clauses").as_arr().iter().map(|c| c.as_ints()).collect() },
            "wcnf" => CliKind::Wcnf {
                num_vars: k.at("num_vars").as_usize(),
                top: k.at("top").as_u64(),
                clauses: k.at("clauses").as_arr().iter().map(|c| (c.at("w").as_u64(), c.at("lits").as_ints())).collect(),
            },
            _ => CliKind::Fzn(FznModel::from_json(k.at("model"))),
        };
        let mut text = j.at("text").as_str().to_string();
        if text.is_empty() {
            if let CliKind::Fzn(m) = &kind {
                text = m.emit();
            }
        }
        CliCase {
            prop: j.at("prop").as_str().to_string(),
            kind,
            text,
            args: j.at("args").as_arr().iter().map(|a| a.as_str().to_string()).collect(),
            proof: j.at("proof").as_bool(),
            twin: j.at("twin").as_bool(),
        }
    }

    fn rerender(&mut self) {
        match &self.kind {
            CliKind::Cnf { num_vars, clauses } => {
                let wl: Vec<(u64, Vec<i32>)> = clauses.iter().map(|c| (0u64, c.clone())).collect();
                self.text = render(&mut Rng::new(1), false, *num_vars, &wl, 0, false);
            }
            CliKind::Wcnf { num_vars, clauses, top } => {
                self.text = render(&mut Rng::new(1), true, *num_vars, clauses, *top, false);
            }
            CliKind::Fzn(m) => self.text = m.emit(),
        }
    }

    pub fn candidates(&self) -> Vec<CliCase> {
        let mut out = vec![];
        // plain layout first
        let mut plain = self.clone();
        plain.rerender();
        if plain.text != self.text {
            out.push(plain.clone());
            return out; // structural shrinking continues from the plain rendering
        }
        // drop option groups
        let mut i = 0;
        while i < self.args.len() {
            let takes_value = !matches!(self.args[i].as_str(), "--no-restarts" | "--no-learning-minimise" | "-s" | "-a" | "-f" | "--cumulative-allow-holes" | "--cumulative-generate-sequence" | "--cumulative-incremental-backtracking");
            let n = if takes_value { 2 } else { 1 };
            if self.args[i] != "--upper-bound-encoding" {
                let mut c = self.clone();
                c.args.drain(i..(i + n).min(c.args.len()));
                out.push(c);
            }
            i += n;
        }
        if self.proof && !self.twin {
            let mut c = self.clone();
            c.proof = false;
            out.push(c);
        }
        match &self.kind {
            CliKind::Cnf { num_vars, clauses } => {
                for i in (0..clauses.len()).rev() {
                    let mut cl = clauses.clone();
                    cl.remove(i);
                    let mut c = self.clone();
                    c.kind = CliKind::Cnf { num_vars: *num_vars, clauses: cl };
                    c.rerender();
                    out.push(c);
                }
                for i in 0..clauses.len() {
                    for j in 0..clauses[i].len() {
                        if clauses[i].len() > 1 {
                            let mut cl = clauses.clone();
                            cl[i].remove(j);
                            let mut c = self.clone();
                            c.kind = CliKind::Cnf { num_vars: *num_vars, clauses: cl };
                            c.rerender();
                            out.push(c);
                        }
                    }
                }
            }
            CliKind::Wcnf { num_vars, clauses, top } => {
                for i in (0..clauses.len()).rev() {
                    let mut cl = clauses.clone();
                    cl.remove(i);
                    let mut c = self.clone();
                    c.kind = CliKind::Wcnf { num_vars: *num_vars, clauses: cl, top: *top };
                    c.rerender();
                    out.push(c);
                }
                let cne = self.args.iter().any(|a| a == "cardinality-network");
                for i in 0..clauses.len() {
                    if clauses[i].0 != *top && clauses[i].0 > 1 && !cne {
                        let mut cl = clauses.clone();
                        cl[i].0 = 1;
                        let mut c = self.clone();
                        c.kind = CliKind::Wcnf { num_vars: *num_vars, clauses: cl, top: *top };
                        c.rerender();
                        out.push(c);
                    }
                    if clauses[i].1.len() > 1 {
                        let mut cl = clauses.clone();
                        let _ = cl[i].1.pop();
                        let mut c = self.clone();
                        c.kind = CliKind::Wcnf { num_vars: *num_vars, clauses: cl, top: *top };
                        c.rerender();
                        out.push(c);
                    }
                }
            }
            CliKind::Fzn(m) => {
                for m2 in m.candidates() {
                    let mut c = self.clone();
                    c.text = m2.emit();
                    c.kind = CliKind::Fzn(m2);
                    out.push(c);
                }
            }
        }
        out
    }

    pub fn run(&self) -> Outcome {
        let mut stats = Stats::default();
        let violation = self.run_inner(&mut stats).err();
        Outcome { violation, trace: fnv(self.to_json().to_string().as_bytes()), stats, polls_per_op: vec![], aborted: None }
    }

    fn ext(&self) -> &'static str {
        match self.kind {
            CliKind::Cnf { .. } => "cnf",
            CliKind::Wcnf { .. } => "wcnf",
            CliKind::Fzn(_) => "fzn",
        }
    }

    fn run_inner(&self, stats: &mut Stats) -> Result<(), Violation> {
        let r = run_binary(self.ext(), &self.text, &self.args, self.proof, 0, 12);
        stats.solves += 1;
        // the number of search decisions makes a run non-trivial; -s is not always on, so count
        // the printed lines instead (>= 2: a verdict and a model / several solutions)
        stats.decisions = r.stdout.lines().count() as u64;
        if self.twin {
            let r2 = run_binary(self.ext(), &self.text, &self.args, self.proof, 1 + (fnv(self.text.as_bytes()) % 1000), 12);
            stats.solves += 1;
            if r.timed_out || r2.timed_out {
                // an execution cut off by the harness's own wall-clock limit has a truncated
                // output; nothing can be concluded from comparing it
                stats.inconclusive += 1;
                return Ok(());
            }
            let a = normalise_output(&r.stdout);
            let b = normalise_output(&r2.stdout);
            if a != b || r.code != r2.code {
                let diff = a.lines().zip(b.lines()).find(|(x, y)| x != y).map(|(x, y)| format!("{x:?} vs {y:?}")).unwrap_or_else(|| format!("{} vs {} lines", a.lines().count(), b.lines().count()));
                return Err(viol("H-TWIN:stdout-differs", format!("two executions of the same command line differ in their output: {diff}")));
            }
            if r.proof != r2.proof {
                return Err(viol("H-TWIN:proof-differs", "two executions of the same command line wrote different proof files".to_string()));
            }
            if r.lits != r2.lits {
                return Err(viol("H-TWIN:literal-definitions-differ", "two executions of the same command line wrote different literal definition files".to_string()));
            }
            // a crash is not a reproducibility violation as long as it reproduces
            return Ok(());
        }
        if r.timed_out && self.args.iter().any(|a| a == "-a") {
            if let CliKind::Fzn(m) = &self.kind {
                // printing every solution of a model with thousands of them takes the (unoptimised)
                // binary longer than the limit of a run: slow, not stuck
                if m.solutions().len() > 1500 {
                    return Ok(());
                }
            }
        }
        if r.timed_out && !terminates(&self.args) {
            // no termination argument for this configuration (restarts every few conflicts
            // with a learned-clause database that is emptied): slow or no progress is legitimate,
            // the run is inconclusive
            return Ok(());
        }
        if let Some(v) = crash_class(&r) {
            return Err(v);
        }
        match &self.kind {
            CliKind::Cnf { num_vars, clauses } => {
                let is_sat = sat_assignments(*num_vars, clauses).next().is_some();
                let verdict = r.stdout.lines().find(|l| l.starts_with("s ")).unwrap_or("").to_string();
                match verdict.as_str() {
                    "s SATISFIABLE" => {
                        if !is_sat {
                            return Err(viol("H-CNF:sat-but-unsatisfiable", "s SATISFIABLE for an unsatisfiable formula".to_string()));
                        }
                        let model = parse_model_line(&r.stdout).ok_or_else(|| viol("H-CNF:no-model-line", "s SATISFIABLE without a v line".to_string()))?;
                        let mask = model_mask(&model, *num_vars).map_err(|e| viol("H-CNF:bad-model-line", e))?;
                        if let Some(c) = clauses.iter().find(|c| !c.iter().any(|l| lit_true(*l, mask, *num_vars))) {
                            return Err(viol("H-CNF:model-violates-clause", format!("the printed model {model:?} falsifies clause {c:?}")));
                        }
                    }
                    "s UNSATISFIABLE" => {
                        if is_sat {
                            return Err(viol("H-CNF:unsat-but-satisfiable", "s UNSATISFIABLE for a satisfiable formula".to_string()));
                        }
                        if self.proof {
                            let proof = r.proof.clone().ok_or_else(|| viol("H-DRAT:no-proof-file", "no proof file was written".to_string()))?;
                            let text = String::from_utf8_lossy(&proof).to_string();
                            check_rup(*num_vars, clauses, &text).map_err(|e| viol("H-DRAT:invalid-proof", format!("{e}; proof:\n{text}")))?;
                            stats.learned = text.lines().count() as u64;
                        }
                    }
                    other => return Err(viol("H-CNF:no-verdict", format!("unexpected status line {other:?}; stdout: {:?}", r.stdout))),
                }
            }
            CliKind::Wcnf { num_vars, clauses, top } => {
                let hard: Vec<Vec<i32>> = clauses.iter().filter(|(w, _)| w == top).map(|(_, c)| c.clone()).collect();
                let soft: Vec<(u32, Vec<i32>)> = clauses.iter().filter(|(w, _)| w != top).map(|(w, c)| (*w as u32, c.clone())).collect();
                let (hard, soft) = (&hard, &soft);
                let cost = |m: u32| -> u64 { soft.iter().filter(|(_, c)| !c.iter().any(|l| lit_true(*l, m, *num_vars))).map(|(w, _)| *w as u64).sum() };
                let optimum = sat_assignments(*num_vars, hard).map(cost).min();
                let verdict = r.stdout.lines().find(|l| l.starts_with("s ")).unwrap_or("").to_string();
                match (verdict.as_str(), optimum) {
                    ("s UNSATISFIABLE", None) => {}
                    ("s UNSATISFIABLE", Some(o)) => return Err(viol("H-MAXSAT:unsat-but-satisfiable", format!("s UNSATISFIABLE but the hard clauses are satisfiable (optimum {o})"))),
                    ("s OPTIMUM FOUND", None) => return Err(viol("H-MAXSAT:optimum-but-unsatisfiable", "s OPTIMUM FOUND but the hard clauses are unsatisfiable".to_string())),
                    ("s OPTIMUM FOUND", Some(o)) => {
                        let last_o = r.stdout.lines().filter(|l| l.starts_with("o ")).last().and_then(|l| l[2..].trim().parse::<u64>().ok());
                        if last_o != Some(o) {
                            return Err(viol("H-MAXSAT:wrong-optimum", format!("the last o line is {last_o:?} but the optimum is {o}")));
                        }
                        let model = parse_model_line(&r.stdout).ok_or_else(|| viol("H-MAXSAT:no-model-line", "no v line".to_string()))?;
                        let mask = model_mask(&model, *num_vars).map_err(|e| viol("H-MAXSAT:bad-model-line", e))?;
                        if let Some(c) = hard.iter().find(|c| !c.iter().any(|l| lit_true(*l, mask, *num_vars))) {
                            return Err(viol("H-MAXSAT:model-violates-hard-clause", format!("the printed model {model:?} falsifies hard clause {c:?}")));
                        }
                        if cost(mask) != o {
                            return Err(viol("H-MAXSAT:model-cost-differs", format!("the printed model {model:?} costs {} but the reported optimum is {o}", cost(mask))));
                        }
                    }
                    (other, _) => return Err(viol("H-MAXSAT:no-verdict", format!("unexpected status line {other:?}; stdout: {:?}", r.stdout))),
                }
            }
            CliKind::Fzn(m) => {
                let all = self.args.iter().any(|a| a == "-a");
                m.judge(&r.stdout, all).map_err(|(c, msg)| viol(&c, msg))?;
            }
        }
        Ok(())
    }
}

#[allow(dead_code)]
fn _unused(_: BTreeSet<u8>) {}
