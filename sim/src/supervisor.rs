//! The supervisor: runs a property's workload in worker processes under a watchdog (the tree
//! under test can loop without polling), aggregates, triages violations (shrink, known-finding
//! match, replay file) and writes the evidence file.
use std::collections::{BTreeMap, HashSet};
use std::io::{BufRead, BufReader};
use std::process::{Command, Stdio};
use std::sync::atomic::{AtomicU64, AtomicUsize, Ordering};
use std::sync::{mpsc, Arc, Mutex};
use std::time::{Duration, Instant};

use crate::anycase::AnyCase as Case;
use crate::exec::{Stats, Violation};
use crate::findings;
use crate::json::J;
use crate::props::Tier;
use crate::{base_seed, verif_root};

pub fn stats_json(s: &Stats) -> J {
    J::obj(vec![
        ("polls", J::u(s.polls)),
        ("decisions", J::u(s.decisions)),
        ("learned", J::u(s.learned)),
        ("solutions", J::u(s.solutions)),
        ("solves", J::u(s.solves)),
        ("expl_events", J::u(s.expl_events)),
        ("expl_checked", J::u(s.expl_checked)),
        ("decisions_checked", J::u(s.decisions_checked)),
        ("faults_fired", J::u(s.faults_fired)),
        ("unknown_after_interrupt", J::u(s.unknown_after_interrupt)),
        ("inconclusive", J::u(s.inconclusive)),
        ("aborted", J::u(s.aborted)),
        ("bound_changes", J::u(s.bound_changes)),
        ("states", J::Arr(s.states.iter().map(|x| J::s(&format!("{x:x}"))).collect())),
        ("probes", J::Obj(s.probes.iter().map(|(k, v)| (k.clone(), J::u(*v))).collect())),
    ])
}

fn stats_merge_json(into: &mut Stats, j: &J, states: &mut HashSet<u64>) {
    let g = |k: &str| j.at(k).as_u64();
    into.polls += g("polls");
    into.decisions += g("decisions");
    into.learned += g("learned");
    into.solutions += g("solutions");
    into.solves += g("solves");
    into.expl_events += g("expl_events");
    into.expl_checked += g("expl_checked");
    into.decisions_checked += g("decisions_checked");
    into.faults_fired += g("faults_fired");
    into.unknown_after_interrupt += g("unknown_after_interrupt");
    into.inconclusive += g("inconclusive");
    into.aborted += g("aborted");
    into.bound_changes += g("bound_changes");
    if states.len() < 4_000_000 {
        for s in j.at("states").as_arr() {
            states.insert(u64::from_str_radix(s.as_str(), 16).unwrap_or(0));
        }
    }
    if let J::Obj(ps) = j.at("probes") {
        for (k, v) in ps {
            *into.probes.entry(k.clone()).or_insert(0) += v.as_u64();
        }
    }
}

/// Number of units per property and tier. Fixed (not time-boxed), so that one invocation
/// explores the same runs every time.
pub fn unit_count(prop: &str, tier: Tier) -> u64 {
    let (q, t) = match prop {
        "C01" => (60_000, 6_000_000),
        "C02" => (50_000, 5_000_000),
        "C03" => (40_000, 1_500_000),
        "C04" => (200_000, 20_000_000),
        "C05" => (40_000, 3_000_000),
        "C06" => (60_000, 2_000_000),
        "C07" => (12_000, 600_000),
        "C08" => (8_000, 200_000),
        "C09" => (40_000, 1_000_000),
        "C10" => (100_000, 2_000_000),
        "C11" => (6_000, 150_000),
        "C12" => (300_000, 20_000_000),
        "C17" => (100_000, 2_000_000),
        "C18" => (40_000, 3_000_000),
        "C19" => (400_000, 40_000_000),
        "C13" => (20_000, 1_000_000),
        "C16" => (200_000, 10_000_000),
        "C15" => (20_000, 1_000_000),
        "C14" => (200_000, 20_000_000),
        "C20" => (20_000, 1_500_000),
        _ => (10_000, 500_000),
    };
    let n = if tier == Tier::Quick { q } else { t };
    std::env::var("VERIF_UNITS").ok().and_then(|s| s.parse().ok()).unwrap_or(n)
}

pub fn watchdog_secs() -> u64 {
    std::env::var("VERIF_WATCHDOG").ok().and_then(|s| s.parse().ok()).unwrap_or(40)
}

static EXE_OVERRIDE: Mutex<Option<std::path::PathBuf>> = Mutex::new(None);

/// The executable used for workers and child evaluations (C16 runs a second pass on the build
/// without overflow checks).
fn self_exe() -> std::path::PathBuf {
    if let Some(p) = EXE_OVERRIDE.lock().unwrap().clone() {
        return p;
    }
    std::env::current_exe().expect("current exe")
}

static TMP_COUNTER: AtomicU64 = AtomicU64::new(0);

fn work_dir() -> String {
    let d = format!("{}/.work", verif_root());
    let _ = std::fs::create_dir_all(&d);
    d
}

fn tmp_path(tag: &str) -> String {
    format!("{}/{}-{}-{}.json", work_dir(), tag, std::process::id(), TMP_COUNTER.fetch_add(1, Ordering::SeqCst))
}

/// Runs `cmd` with a CPU-time limit; returns (stdout, exited normally, timed out).
/// CPU seconds (user + system, including waited-for children) consumed by process `pid`, read
/// from /proc; `None` when the process is gone. Time limits are CPU time so that a machine under
/// load (a starved but healthy process) is not mistaken for a hang; a generous wall-clock cap
/// still ends a process that sleeps forever.
pub fn cpu_seconds(pid: u32) -> Option<f64> {
    let stat = std::fs::read_to_string(format!("/proc/{pid}/stat")).ok()?;
    let rest = &stat[stat.rfind(')')? + 1..];
    let f: Vec<&str> = rest.split_whitespace().collect();
    // after the command name: state is f[0]; utime, stime, cutime, cstime are fields 14-17 of the line
    let ticks: u64 = [11usize, 12, 13, 14].iter().filter_map(|i| f.get(*i).and_then(|x| x.parse::<u64>().ok())).sum();
    Some(ticks as f64 / 100.0)
}

/// CPU seconds of `pid` and of its live descendants (a command-line case runs the solver binary
/// as a grandchild).
fn cpu_seconds_tree(pid: u32) -> f64 {
    let mut total = cpu_seconds(pid).unwrap_or(0.0);
    if let Ok(children) = std::fs::read_to_string(format!("/proc/{pid}/task/{pid}/children")) {
        for c in children.split_whitespace() {
            if let Ok(c) = c.parse::<u32>() {
                total += cpu_seconds_tree(c);
            }
        }
    }
    total
}

const WALL_FACTOR: u64 = 12;

fn run_limited(mut cmd: Command, secs: u64) -> (String, bool, bool) {
    cmd.stdout(Stdio::piped()).stderr(Stdio::null()).stdin(Stdio::null());
    let mut child = cmd.spawn().expect("spawn child");
    let mut out = child.stdout.take().unwrap();
    let (tx, rx) = mpsc::channel();
    let reader = std::thread::spawn(move || {
        let mut s = String::new();
        let _ = std::io::Read::read_to_string(&mut out, &mut s);
        let _ = tx.send(s);
    });
    let start = Instant::now();
    loop {
        match child.try_wait() {
            Ok(Some(status)) => {
                let s = rx.recv_timeout(Duration::from_secs(5)).unwrap_or_default();
                let _ = reader.join();
                return (s, status.success(), false);
            }
            Ok(None) => {
                if cpu_seconds_tree(child.id()) > secs as f64 || start.elapsed() > Duration::from_secs(secs * WALL_FACTOR) {
                    let _ = child.kill();
                    let _ = child.wait();
                    let s = rx.recv_timeout(Duration::from_secs(5)).unwrap_or_default();
                    let _ = reader.join();
                    return (s, false, true);
                }
                std::thread::sleep(Duration::from_millis(5));
            }
            Err(_) => return (String::new(), false, false),
        }
    }
}

/// Evaluates one case in a child process: hangs and crashes become verdicts.
pub fn eval_in_child(case: &Case, secs: u64) -> Option<Violation> {
    let path = tmp_path("eval");
    std::fs::write(&path, case.to_json().to_string()).expect("write tmp case");
    let mut cmd = Command::new(self_exe());
    cmd.arg("eval").arg(&path);
    let (out, ok, timed_out) = run_limited(cmd, secs);
    let _ = std::fs::remove_file(&path);
    if timed_out {
        return Some(Violation { class: "HANG".into(), msg: format!("no result within {secs} s of CPU time (a loop that never polls the termination condition)"), op_index: case.as_lib().map(|c| c.ops.len().saturating_sub(1)).unwrap_or(0) });
    }
    if !ok {
        return Some(Violation { class: "CRASH".into(), msg: "the process died (abort / stack overflow / double panic)".into(), op_index: case.as_lib().map(|c| c.ops.len().saturating_sub(1)).unwrap_or(0) });
    }
    for line in out.lines() {
        if let Some(rest) = line.strip_prefix("VIOL ") {
            let j = J::parse(rest).ok()?;
            return Some(Violation { class: j.at("class").as_str().to_string(), msg: j.at("msg").as_str().to_string(), op_index: j.at("op_index").as_usize() });
        }
    }
    None
}

#[derive(Default)]
struct Agg {
    units: u64,
    cases: u64,
    traces: HashSet<u64>,
    nontrivial: HashSet<u64>,
    stats: Stats,
    states: HashSet<u64>,
    violations: Vec<(u64, Case, Violation)>,
    hangs: Vec<(u64, String)>,
    samples: Vec<J>,
}

enum Line {
    Text(String),
    Eof,
}

fn run_chunk(prop: &str, tier: Tier, seed: u64, from: u64, to: u64, agg: &Mutex<Agg>) {
    let mut next = from;
    while next < to {
        let mut child = Command::new(self_exe())
            .args(["worker", prop, tier.name(), &seed.to_string(), &next.to_string(), &to.to_string()])
            .stdout(Stdio::piped())
            .stderr(Stdio::null())
            .stdin(Stdio::null())
            .spawn()
            .expect("spawn worker");
        let stdout = child.stdout.take().unwrap();
        let (tx, rx) = mpsc::channel::<Line>();
        let reader = std::thread::spawn(move || {
            let r = BufReader::new(stdout);
            for l in r.lines() {
                match l {
                    Ok(l) => {
                        if tx.send(Line::Text(l)).is_err() {
                            return;
                        }
                    }
                    Err(_) => break,
                }
            }
            let _ = tx.send(Line::Eof);
        });
        let mut done_marker = false;
        let mut last_done: Option<u64> = None;
        let mut failure: Option<&'static str> = None;
        // local buffers, merged under the lock once per chunk attempt
        let mut l_units = 0u64;
        let mut l_cases = 0u64;
        let mut l_traces: Vec<(u64, bool)> = vec![];
        let mut l_stats: Vec<J> = vec![];
        let mut l_viol: Vec<(u64, Case, Violation)> = vec![];
        let mut l_samples: Vec<J> = vec![];
        let mut cpu_at_last_line = 0.0f64;
        let mut wall_at_last_line = Instant::now();
        loop {
            let received = match rx.recv_timeout(Duration::from_secs(2)) {
                Err(mpsc::RecvTimeoutError::Timeout) => {
                    // the watchdog counts the CPU time the worker spent since its last line
                    let cpu = cpu_seconds_tree(child.id());
                    if cpu - cpu_at_last_line > watchdog_secs() as f64 || wall_at_last_line.elapsed() > Duration::from_secs(watchdog_secs() * WALL_FACTOR) {
                        Err(())
                    } else {
                        continue;
                    }
                }
                Err(mpsc::RecvTimeoutError::Disconnected) => Err(()),
                Ok(l) => {
                    cpu_at_last_line = cpu_seconds_tree(child.id());
                    wall_at_last_line = Instant::now();
                    Ok(l)
                }
            };
            match received {
                Ok(Line::Text(l)) => {
                    let mut it = l.splitn(3, ' ');
                    match it.next() {
                        Some("U") => {
                            let idx: u64 = it.next().unwrap().parse().unwrap();
                            let rest = it.next().unwrap_or("");
                            let mut parts = rest.split(' ');
                            l_cases += parts.next().unwrap_or("0").parse::<u64>().unwrap_or(0);
                            for h in parts {
                                let nt = h.ends_with('!');
                                let h = h.trim_end_matches('!');
                                if let Ok(x) = u64::from_str_radix(h, 16) {
                                    l_traces.push((x, nt));
                                }
                            }
                            l_units += 1;
                            last_done = Some(idx);
                        }
                        Some("V") => {
                            let idx: u64 = it.next().unwrap().parse().unwrap();
                            if let Ok(j) = J::parse(it.next().unwrap_or("")) {
                                let case = Case::from_json(j.at("case"));
                                let v = j.at("violation");
                                l_viol.push((idx, case, Violation { class: v.at("class").as_str().to_string(), msg: v.at("msg").as_str().to_string(), op_index: v.at("op_index").as_usize() }));
                            }
                        }
                        Some("M") => {
                            let _idx = it.next();
                            if let Ok(j) = J::parse(it.next().unwrap_or("")) {
                                l_samples.push(j);
                            }
                        }
                        Some("S") => {
                            let rest = l[2..].to_string();
                            if let Ok(j) = J::parse(&rest) {
                                l_stats.push(j);
                            }
                        }
                        Some("D") => done_marker = true,
                        _ => {}
                    }
                }
                Ok(Line::Eof) => {
                    if !done_marker {
                        failure = Some("CRASH");
                    }
                    break;
                }
                Err(_) => {
                    failure = Some("HANG");
                    break;
                }
            }
        }
        let _ = child.kill();
        let _ = child.wait();
        let _ = reader.join();
        {
            let mut a = agg.lock().unwrap();
            a.units += l_units;
            a.cases += l_cases;
            for (h, nt) in l_traces {
                a.traces.insert(h);
                if nt {
                    a.nontrivial.insert(h);
                }
            }
            let Agg { stats, states, .. } = &mut *a;
            for j in &l_stats {
                stats_merge_json(stats, j, states);
            }
            a.violations.extend(l_viol);
            if a.samples.len() < 6 {
                a.samples.extend(l_samples);
            }
            match failure {
                Some(kind) => {
                    let bad = last_done.map(|d| d + 1).unwrap_or(next);
                    a.hangs.push((bad, kind.to_string()));
                    next = bad + 1;
                }
                None => next = to,
            }
        }
    }
}

/// For a unit that hung or crashed its worker: re-run it alone with announcements to learn
/// which explicit case was executing.
fn find_stuck_case(prop: &str, tier: Tier, seed: u64, unit: u64) -> Option<Case> {
    let mut cmd = Command::new(self_exe());
    cmd.args(["worker", prop, tier.name(), &seed.to_string(), &unit.to_string(), &(unit + 1).to_string(), "--announce"]);
    let (out, _, _) = run_limited(cmd, 25);
    let mut last = None;
    for line in out.lines() {
        if let Some(rest) = line.strip_prefix("A ") {
            if let Ok(j) = J::parse(rest) {
                last = Some(Case::from_json(&j));
            }
        }
    }
    last
}

fn shrink_in_child(case: &Case, v: &Violation) -> (Case, Violation, u64) {
    let inp = tmp_path("shrink-in");
    let outp = tmp_path("shrink-out");
    let j = J::obj(vec![
        ("case", case.to_json()),
        ("violation", J::obj(vec![("class", J::s(&v.class)), ("msg", J::s(&v.msg)), ("op_index", J::u(v.op_index as u64))])),
    ]);
    std::fs::write(&inp, j.to_string()).expect("write");
    let mut cmd = Command::new(self_exe());
    cmd.args(["shrink", &inp, &outp]);
    let (_, ok, _) = run_limited(cmd, 90);
    let res = if ok { std::fs::read_to_string(&outp).ok().and_then(|t| J::parse(&t).ok()) } else { None };
    let _ = std::fs::remove_file(&inp);
    let _ = std::fs::remove_file(&outp);
    match res {
        Some(j) => {
            let vj = j.at("violation");
            (
                Case::from_json(j.at("case")),
                Violation { class: vj.at("class").as_str().to_string(), msg: vj.at("msg").as_str().to_string(), op_index: vj.at("op_index").as_usize() },
                j.at("evals").as_u64(),
            )
        }
        None => (case.clone(), v.clone(), 0),
    }
}

fn shrink_with_children(case: &Case, v: &Violation) -> (Case, Violation, u64) {
    let mut check = |c: &Case| eval_in_child(c, watchdog_secs());
    let (c, v2, e) = crate::shrink::shrink_any(case, v, &mut check, 60);
    (c, v2, e as u64)
}

fn write_replay(prop: &str, seed: u64, unit: u64, original: &Case, case: &Case, v: &Violation, evals: u64) -> String {
    let dir = format!("{}/replays", verif_root());
    let _ = std::fs::create_dir_all(&dir);
    let trace = if v.class == "HANG" || v.class == "CRASH" { 0 } else { case.check().trace };
    let id = crate::rng::fnv(case.to_json().to_string().as_bytes());
    let path = format!("{dir}/{prop}-{id:016x}.json");
    let mut fields = vec![
        ("property", J::s(prop)),
        ("class", J::s(&v.class)),
        ("message", J::s(&v.msg)),
        ("op_index", J::u(v.op_index as u64)),
        ("seed", J::u(seed)),
        ("unit", J::u(unit)),
        ("shrink_evaluations", J::u(evals)),
        ("build_profile", J::s(if std::env::var("VERIF_C16_PASS").is_ok() { "nochecks (overflow-checks = false): replay with target/sim/nochecks/sim replay <file>" } else { "release (overflow-checks = true)" })),
    ];
    if trace != 0 {
        fields.push(("trace_id", J::s(&format!("{trace:016x}"))));
    }
    fields.push(("case", case.to_json()));
    fields.push(("original_case", original.to_json()));
    std::fs::write(&path, J::obj(fields).pretty()).expect("write replay file");
    path
}

pub fn check(prop: &str, tier: Tier) -> i32 {
    if prop == "C16" && std::env::var("VERIF_C16_PASS").is_err() {
        // two builds of the same code: overflow checks on (an overflow is a panic) and off (the
        // shipped semantics: wrap-around must not change a result). The second pass runs the
        // whole supervisor of the other build and keeps its own evidence section.
        let first = check_pass(prop, tier);
        let ev_path = format!("{}/evidence/{prop}.json", verif_root());
        let first_ev = std::fs::read_to_string(&ev_path).ok().and_then(|t| J::parse(&t).ok());
        let other = format!("{}/target/sim/nochecks/sim", verif_root());
        if !std::path::Path::new(&other).exists() {
            eprintln!("harness error: {other} is missing (cargo build --profile nochecks)");
            return 2;
        }
        let status = Command::new(&other).args(["check", prop, tier.name()]).env("VERIF_C16_PASS", "nochecks").status();
        let second = status.ok().and_then(|s| s.code()).unwrap_or(2);
        // merge: the evidence file of the second pass is on disk now
        let second_ev = std::fs::read_to_string(&ev_path).ok().and_then(|t| J::parse(&t).ok());
        if let (Some(J::Obj(mut a)), Some(b)) = (first_ev, second_ev) {
            for (k, v) in a.iter_mut() {
                if k == "coverage" {
                    if let J::Obj(cov) = v {
                        cov.push(("second_pass_without_overflow_checks".to_string(), b.at("coverage").clone()));
                        let add = |cov: &mut Vec<(String, J)>, key: &str| {
                            let extra = b.at("coverage").at(key).as_u64();
                            for (k2, v2) in cov.iter_mut() {
                                if k2 == key {
                                    *v2 = J::u(v2.as_u64() + extra);
                                }
                            }
                        };
                        add(cov, "evaluations");
                        cov.push(("build_profiles".to_string(), J::s("pass 1: overflow-checks = true (sim/Cargo.toml profile.release); pass 2: profile.nochecks (overflow-checks = false)")));
                    }
                }
                if k == "wall_s" {
                    *v = J::Float(v.as_f64() + b.at("wall_s").as_f64());
                }
                if k == "violations" {
                    *v = J::i(if first != 0 || second != 0 { 1 } else { 0 });
                }
            }
            let _ = std::fs::write(&ev_path, J::Obj(a).pretty());
        }
        return if first == 2 || second == 2 { 2 } else { first.max(second) };
    }
    check_pass(prop, tier)
}

/// Determinism probe: the first units are executed again in separate processes with a different
/// chunking; the (unit, trace id) lines must be identical. A difference is a harness error.
fn determinism_probe(prop: &str, tier: Tier, seed: u64, n: u64) -> Result<u64, String> {
    let run = |from: u64, to: u64| -> Vec<String> {
        let mut cmd = Command::new(self_exe());
        cmd.args(["worker", prop, tier.name(), &seed.to_string(), &from.to_string(), &to.to_string()]);
        let (out, _, _) = run_limited(cmd, 120);
        out.lines().filter(|l| l.starts_with("U ")).map(|l| l.to_string()).collect()
    };
    let a = run(0, n);
    let mut b = run(0, n / 2);
    b.extend(run(n / 2, n));
    if a.len() as u64 != n || a != b {
        let diff = a.iter().zip(b.iter()).find(|(x, y)| x != y).map(|(x, y)| format!("{x} / {y}")).unwrap_or_else(|| format!("{} vs {} lines", a.len(), b.len()));
        return Err(diff);
    }
    Ok(n)
}

fn check_pass(prop: &str, tier: Tier) -> i32 {
    crate::exec::install_panic_hook();
    let start = Instant::now();
    let seed = base_seed();
    let determinism = match determinism_probe(prop, tier, seed, 48) {
        Ok(n) => n,
        Err(diff) => {
            eprintln!("harness error: two executions of the same units differ ({diff}); the simulator is not deterministic");
            return 2;
        }
    };
    let n_units = unit_count(prop, tier);
    let workers: usize = std::env::var("VERIF_WORKERS").ok().and_then(|s| s.parse().ok()).unwrap_or_else(|| std::thread::available_parallelism().map(|n| n.get()).unwrap_or(8));
    println!("check {prop} tier={} seed={seed} units={n_units} workers={workers}", tier.name());
    let agg = Arc::new(Mutex::new(Agg::default()));
    let chunk = (n_units / (workers as u64 * 6)).clamp(20, 20_000).max(1);
    let n_chunks = n_units.div_ceil(chunk) as usize;
    let next_chunk = Arc::new(AtomicUsize::new(0));
    let mut handles = vec![];
    for _ in 0..workers {
        let agg = agg.clone();
        let next_chunk = next_chunk.clone();
        let prop = prop.to_string();
        handles.push(std::thread::spawn(move || loop {
            let c = next_chunk.fetch_add(1, Ordering::SeqCst);
            if c >= n_chunks {
                break;
            }
            let from = c as u64 * chunk;
            let to = (from + chunk).min(n_units);
            run_chunk(&prop, tier, seed, from, to, &agg);
        }));
    }
    for h in handles {
        let _ = h.join();
    }
    let mut agg = Arc::try_unwrap(agg).ok().expect("agg").into_inner().unwrap();
    let explore_wall = start.elapsed().as_secs_f64();

    // ---- triage ---------------------------------------------------------------------------
    let known = findings::load(&format!("{}/KNOWN_FINDINGS.txt", verif_root()));
    agg.violations.sort_by_key(|(i, _, _)| *i);
    agg.hangs.sort();
    let mut by_class: BTreeMap<String, (u64, Case, Violation, u64)> = BTreeMap::new();
    for (idx, case, v) in &agg.violations {
        let e = by_class.entry(v.class.clone()).or_insert_with(|| (*idx, case.clone(), v.clone(), 0));
        e.3 += 1;
    }
    for (class, (idx, _, _, count)) in by_class.iter() {
        println!("class {class}: {count} runs, first at unit {idx}");
    }
    let mut hang_cases: Vec<(u64, Case, Violation)> = vec![];
    for (unit, kind) in agg.hangs.iter().take(3) {
        if let Some(case) = find_stuck_case(prop, tier, seed, *unit) {
            // confirm in a child of its own (a slow machine is not a hang)
            // the same CPU-time limit as the worker's watchdog
            if let Some(v) = eval_in_child(&case, watchdog_secs()) {
                if v.class == "HANG" || v.class == "CRASH" {
                    hang_cases.push((*unit, case, v));
                    continue;
                }
            }
        }
        println!("note: worker {kind} at unit {unit} did not reproduce in isolation");
    }
    let mut exit = 0;
    // regression replays: the demonstrations of defects that were repaired ("fixed:" entries)
    // must stay quiet; a fixed entry suppresses nothing
    let mut regressions_run = 0u64;
    let fixed_dir = format!("{}/known/fixed", verif_root());
    let mut files: Vec<_> = std::fs::read_dir(&fixed_dir).map(|d| d.filter_map(|e| e.ok()).map(|e| e.path()).collect()).unwrap_or_default();
    files.sort();
    for path in files {
        let Ok(text) = std::fs::read_to_string(&path) else { continue };
        let Ok(j) = J::parse(&text) else { continue };
        if j.get("property").map(|p| p.as_str()) != Some(prop) || j.get("case").is_none() {
            continue;
        }
        regressions_run += 1;
        let case = Case::from_json(j.at("case"));
        if let Some(v) = eval_in_child(&case, 10) {
            println!("regression: the repaired defect demonstrated by {} is back: {} ({})", path.display(), v.class, v.msg);
            println!("VIOLATION property={prop} replay={}", path.display());
            exit = 1;
        }
    }
    let mut known_seen: BTreeMap<String, (String, u64)> = BTreeMap::new();
    let mut reported: Vec<J> = vec![];
    let mut n_reported = 0;
    let total_classes = by_class.len();
    for (class, (idx, case, v, count)) in by_class.iter() {
        // known findings are recognised on the minimised case, but a cheap pre-check on the
        // raw case avoids shrinking hundreds of instances of the same recorded defect
        if n_reported >= 6 {
            println!("… {} further failure classes not minimised (first: {class}, {count} runs)", total_classes - n_reported);
            exit = 1;
            break;
        }
        let (small, sv, evals) = shrink_in_child(case, v);
        if let Some(f) = findings::matching(&known, prop, &small, &sv) {
            let e = known_seen.entry(f.id.clone()).or_insert((f.text.clone(), 0));
            e.1 += count;
            continue;
        }
        n_reported += 1;
        let path = write_replay(prop, seed, *idx, case, &small, &sv, evals);
        println!("violation class {class} ({count} runs; first at unit {idx}; minimised with {evals} evaluations)");
        println!("  {}", sv.msg);
        println!("VIOLATION property={prop} replay={path}");
        reported.push(J::obj(vec![("class", J::s(class)), ("runs", J::u(*count)), ("replay", J::s(&path)), ("message", J::s(&sv.msg))]));
        exit = 1;
    }
    for (unit, case, v) in &hang_cases {
        let (small, sv, evals) = shrink_with_children(case, v);
        if let Some(f) = findings::matching(&known, prop, &small, &sv) {
            let e = known_seen.entry(f.id.clone()).or_insert((f.text.clone(), 0));
            e.1 += 1;
            continue;
        }
        let path = write_replay(prop, seed, *unit, case, &small, &sv, evals);
        println!("violation class {} at unit {unit}", sv.class);
        println!("  {}", sv.msg);
        println!("VIOLATION property={prop} replay={path}");
        reported.push(J::obj(vec![("class", J::s(&sv.class)), ("runs", J::u(1)), ("replay", J::s(&path)), ("message", J::s(&sv.msg))]));
        exit = 1;
    }
    // replay the recorded files of open findings for this property
    for f in known.iter().filter(|f| f.property == prop) {
        let mut still = known_seen.contains_key(&f.id);
        if let Some(r) = &f.replay {
            let path = format!("{}/{}", verif_root(), r);
            if let Ok(text) = std::fs::read_to_string(&path) {
                if let Ok(j) = J::parse(&text) {
                    let case = Case::from_json(j.at("case"));
                    let v = eval_in_child(&case, 10);
                    match v {
                        Some(v) if v.class.starts_with(&f.class) => still = true,
                        _ => println!("note: known finding {} no longer reproduces from {r}", f.id),
                    }
                }
            }
        }
        if still {
            let n = known_seen.get(&f.id).map(|x| x.1).unwrap_or(0);
            println!("KNOWN-FINDING: property={prop} {} {} ({n} runs of this batch)", f.id, f.text);
        }
    }

    // ---- evidence -------------------------------------------------------------------------
    let wall = start.elapsed().as_secs_f64();
    let level = if prop == "C11" { "fault_enumeration" } else { "exploration" };
    let mut samples: Vec<J> = agg.samples.iter().take(3).cloned().collect();
    if samples.is_empty() {
        samples.push(J::s("no non-trivial sample was produced by the first units of this batch"));
    }
    let coverage = J::obj(vec![
        ("evaluations", J::u(agg.cases)),
        ("distinct_nontrivial", J::u(agg.nontrivial.len() as u64)),
        (
            "rule",
            J::s("cases are generated from VERIF_SEED by the swarm generator of sim/src/gen.rs + props.rs (model, knobs, schedule, operations, faults); a case is non-trivial if its execution had at least one learned nogood (conflict), at least two decisions, or (posting-only histories) at least one root bound tightened by a posting; distinct = distinct trace id (FNV-1a over every decision, solution, verdict, poll count and learned nogood of the run)"),
        ),
        ("samples", J::Arr(samples)),
        ("units", J::u(agg.units)),
        ("distinct_trace_ids", J::u(agg.traces.len() as u64)),
        ("distinct_root_bound_states", J::u(agg.states.len() as u64)),
        ("simulated_time_polls", J::u(agg.stats.polls)),
        ("decisions", J::u(agg.stats.decisions)),
        ("learned_nogoods", J::u(agg.stats.learned)),
        ("solutions_checked", J::u(agg.stats.solutions)),
        ("solve_operations", J::u(agg.stats.solves)),
        ("explanation_events", J::u(agg.stats.expl_events)),
        ("explanation_obligations_checked", J::u(agg.stats.expl_checked)),
        ("decisions_checked", J::u(agg.stats.decisions_checked)),
        (
            "faults_fired",
            J::obj(vec![("interrupt", J::u(agg.stats.faults_fired)), ("unknown_returned_after_interrupt", J::u(agg.stats.unknown_after_interrupt))]),
        ),
        ("inconclusive_step_budget_without_termination_argument", J::u(agg.stats.inconclusive)),
        ("aborted_runs_panic_not_a_violation_of_this_property", J::u(agg.stats.aborted)),
        ("worker_hangs_or_crashes", J::u(agg.hangs.len() as u64)),
        ("regression_replays_of_fixed_defects_run", J::u(regressions_run)),
        ("determinism_probe_units_rerun_in_other_processes_with_identical_trace_ids", J::u(determinism)),
        ("reach_probes", J::Obj(agg.stats.probes.iter().map(|(k, v)| (k.clone(), J::u(*v))).collect())),
        ("runs_per_hour", J::u((agg.cases as f64 / explore_wall.max(0.001) * 3600.0) as u64)),
        ("known_findings_seen", J::Obj(known_seen.iter().map(|(k, v)| (k.clone(), J::u(v.1))).collect())),
        ("violations_reported", J::Arr(reported)),
        (
            "components",
            J::obj(vec![
                ("real", J::s("pumpkin-solver library (engine, propagators, nogood database, restarts, branchers, optimisation procedures, solution iterator, core extraction) built from /repo's working tree with feature verif-hooks, overflow checks on")),
                ("simulated", J::s("TerminationCondition (FaultClock), Brancher in schedule-driven runs (SchedBrancher), the caller (operation history), tuning knobs randomised per run")),
            ]),
        ),
    ]);
    let ev = J::obj(vec![
        ("property_id", J::s(prop)),
        ("tier", J::s(tier.name())),
        ("seed", J::u(seed)),
        ("level", J::s(level)),
        ("coverage", coverage),
        (
            "assumptions",
            J::Arr(vec![
                J::s("the reference evaluator of sim/src/ir.rs states the documented meaning of every constraint (there is no separate self-test of it: it is cross-checked by the differential structure of the workloads, by the independently written FlatZinc evaluator of sim/src/fzn.rs for the constraints both cover, and by the hand triage of every alarm on the unchanged tree, DESIGN.md 13.2/13.3)"),
                J::s("models are small enough for exhaustive enumeration by the reference model; larger models are outside this check"),
                J::s("a clean batch is evidence, not proof: the schedule and fault space is sampled"),
            ]),
        ),
        ("wall_s", J::Float((wall * 100.0).round() / 100.0)),
        ("violations", J::i(if exit == 0 { 0 } else { 1 })),
    ]);
    let evdir = format!("{}/evidence", verif_root());
    let _ = std::fs::create_dir_all(&evdir);
    if std::fs::write(format!("{evdir}/{prop}.json"), ev.pretty()).is_err() {
        eprintln!("cannot write evidence file");
        return 2;
    }
    println!(
        "done {prop}: units={} cases={} distinct_nontrivial={} polls={} learned={} hangs={} wall={:.1}s exit={exit}",
        agg.units,
        agg.cases,
        agg.nontrivial.len(),
        agg.stats.polls,
        agg.stats.learned,
        agg.hangs.len(),
        wall
    );
    if agg.units < n_units && agg.hangs.is_empty() {
        eprintln!("harness error: only {} of {n_units} units completed", agg.units);
        return 2;
    }
    exit
}
