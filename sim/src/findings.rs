//! The known-findings file: genuine defects that were recorded rather than repaired, identified
//! narrowly (failure class + a structural predicate over the minimised case).
use crate::exec::{Case, Op, Violation};
use crate::ir::Con;

#[derive(Clone, Debug)]
pub struct Finding {
    pub property: String,
    pub id: String,
    /// prefix of the failure class
    pub class: String,
    /// name of the structural predicate over the minimised case ("any" = none)
    pub where_: String,
    pub replay: Option<String>,
    pub text: String,
}

pub fn load(path: &str) -> Vec<Finding> {
    let Ok(text) = std::fs::read_to_string(path) else { return vec![] };
    let mut out = vec![];
    for line in text.lines() {
        let line = line.trim();
        let Some(rest) = line.strip_prefix("finding:") else { continue };
        let (head, text) = rest.split_once("::").unwrap_or((rest, ""));
        let mut f = Finding { property: String::new(), id: String::new(), class: String::new(), where_: "any".into(), replay: None, text: text.trim().to_string() };
        for tok in head.split_whitespace() {
            if let Some((k, v)) = tok.split_once('=') {
                match k {
                    "property" => f.property = v.to_string(),
                    "id" => f.id = v.to_string(),
                    "class" => f.class = v.to_string(),
                    "where" => f.where_ = v.to_string(),
                    "replay" => f.replay = Some(v.to_string()),
                    _ => {}
                }
            }
        }
        out.push(f);
    }
    out
}

fn any_con(case: &Case, f: &dyn Fn(&Con) -> bool) -> bool {
    case.ops.iter().any(|o| matches!(o, Op::Post(c) if f(c)))
}

/// The structural predicates findings may refer to.
pub fn where_holds(name: &str, case: &Case, v: &Violation) -> bool {
    match name {
        "any" => true,
        // an op after a completed LinearSatUnsat optimisation fails
        // (the bounds oracle runs after each op, so a bounds report at the optimisation itself is
        // "after" it as well; the optimisation's own result is not)
        "after-sat-unsat-optimise" => {
            case.ops[..v.op_index.min(case.ops.len())].iter().any(|o| matches!(o, Op::Optimise { sat_unsat: true, .. }))
                || (v.class.starts_with("I-BOUNDS") && matches!(case.ops.get(v.op_index), Some(Op::Optimise { sat_unsat: true, .. })))
        }
        // the failing op itself is a LinearSatUnsat optimisation that follows an interrupted one
        "sat-unsat-resumed" => {
            matches!(case.ops.get(v.op_index), Some(Op::Optimise { sat_unsat: true, .. }))
                && case.ops[..v.op_index].iter().any(|o| matches!(o, Op::Optimise { sat_unsat: true, interrupt: Some(_), .. }))
        }
        "nolearning-with-assumptions" => !case.knobs.uip && case.ops.iter().any(|o| matches!(o, Op::Assume { .. } | Op::Optimise { sat_unsat: false, .. })),
        "assume-with-core" => matches!(case.ops.get(v.op_index), Some(Op::Assume { core: true, .. })),
        "element-alias" => any_con(case, &|c| matches!(c.base(), Con::Element(..)) && c.base().has_alias()),
        "alias" => any_con(case, &|c| c.has_alias()),
        "cumulative" => any_con(case, &|c| matches!(c.base(), Con::Cumulative { .. })),
        "cumulative-alias" => any_con(case, &|c| matches!(c.base(), Con::Cumulative { .. }) && c.base().has_alias()),
        "cumulative-overload" => any_con(case, &|c| match c.base() {
            Con::Cumulative { usages, capacity, .. } => usages.iter().any(|u| u > capacity),
            _ => false,
        }),
        "new-var-when-infeasible" => matches!(case.ops.get(v.op_index), Some(Op::AddVar(_))),
        "assume-op" => matches!(case.ops.get(v.op_index), Some(Op::Assume { .. })),
        "scale-zero" => case.ops.iter().any(|o| match o {
            Op::Post(c) => format!("{c:?}").contains("scale: 0"),
            _ => false,
        }),
        _ => false,
    }
}

pub fn matching<'a>(findings: &'a [Finding], prop: &str, case: &crate::anycase::AnyCase, v: &Violation) -> Option<&'a Finding> {
    findings.iter().find(|f| {
        f.property == prop
            && v.class.starts_with(&f.class)
            && match case.as_lib() {
                Some(c) => where_holds(&f.where_, c, v),
                None => where_holds_other(&f.where_, case, v),
            }
    })
}

/// Structural predicates over the non-library scenario kinds.
pub fn where_holds_other(name: &str, case: &crate::anycase::AnyCase, _v: &Violation) -> bool {
    use crate::anycase::AnyCase;
    match (name, case) {
        ("any", _) => true,
        ("cardinality-network", AnyCase::Cli(c)) => c.args.iter().any(|a| a == "cardinality-network"),
        // a DRAT proof is asked for while the resolver that learns nothing is selected
        ("proof-with-no-learning", AnyCase::Cli(c)) => c.proof && c.args.iter().any(|a| a == "no-learning"),
        // `var {..}: x = y` / `var ..: x = y` with y declared over a set: the initialiser of a
        // set-domain declaration is dropped by the parser, and an alias of a set-domain variable
        // takes that variable's own domain
        ("fzn-set-domain-alias", AnyCase::Cli(c)) => match &c.kind {
            crate::cli::CliKind::Fzn(m) => m.vars.iter().any(|v| v.alias.is_some_and(|t| v.decl == 1 || m.vars[t].decl == 1)),
            _ => false,
        },
        // !(x >= i64::MIN) and !(x <= i64::MAX) are not representable
        ("atomic-at-i64-extreme", AnyCase::Drcp(c)) => c.atomics.iter().any(|a| (a.cmp == 0 && a.value == i64::MIN) || (a.cmp == 1 && a.value == i64::MAX)),
        _ => false,
    }
}
