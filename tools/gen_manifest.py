#!/usr/bin/env python3
"""Generates /verif/MANIFEST.json from the table below (kept in one place so that it stays valid)."""
import json, subprocess

SIM_NOTE = ("Trusted base: the reference evaluator/enumerator of sim/src/ir.rs (documented constraint semantics, i128 arithmetic), "
            "the adapter from IR to API calls, rustc. Models are small enough to enumerate (<= 12k assignments quick, <= 60k thorough); "
            "the schedule/fault space is sampled with a fixed default seed, so a clean batch is evidence, not proof.")

LIB = {
 "C01": ("every solution handed out by satisfy / iterator / assumptions / optimise result / optimise callback is read through the public API and checked against the reference model (declared domains, every posted constraint incl. views and (half-)reification) after arbitrary backtrack / backjump / restart / database-reduction histories chosen by the seeded scheduler", "§6 C01"),
 "C02": ("verdict oracle (Unsatisfiable / post error only if the reference solution set is empty), learned-nogood oracle on every nogood returned by conflict analysis (hook H2) and step-budget liveness under configurations with a termination argument", "§6 C02"),
 "C03": ("iterate-to-the-end histories: every yielded item is a reference solution not seen before, and at the end the multiset equals the reference solution set; each step runs on a solver with a longer history (blocking clause, kept nogoods)", "§6 C03"),
 "C04": ("optimise x {min,max} x {LinearSatUnsat, LinearUnsatSat} x {variable, view, fixed objective}: Optimal(s) => s is a reference solution with the reference optimum; Unsatisfiable <=> no solution; every callback incumbent is a solution", "§6 C04"),
 "C05": ("sequences of assumption solves (0-4 predicates of any kind, redundant / root-true / root-false / mutually inconsistent / directly contradictory) with and without core extraction on one solver, followed by a plain solve (non-retention); core = implied by the assumptions over the declared domains and inconsistent with the model", "§6 C05"),
 "C06": ("library runs ending in UNSAT or an optimum with ProofLog::cp (scaffold / full / hinted), every constraint tagged, every variable named; the proof and .lits files are checked afterwards by an independent checker (own line parser): .lits maps every code; every tagged inference is checked semantically against the single tagged constraint by enumeration over its scope and the declared domains; untagged inferences must be implied by the model and the objective bounds in force (an objective-strengthening step must match an incumbent the harness saw); every nogood must be derivable by domain-aware reverse unit propagation from the steps it may use (with hints: only the hinted steps); UNSAT must be preceded by the empty nogood; an optimality conclusion must be over the objective variable, hold in the returned solution and be tight at the reference optimum. Clauses posted through the API cannot be tagged (the code documents this gap of the proof logging) and are outside the workload", "§6 C06"),
 "C07": ("one model and operation under a covering set of 8 (12 thorough) configurations (resolver x minimisation x restart policy x database regime x sorting x RNG seed x brancher); every answer is compared with the reference, hence with each other", "§6 C07"),
 "C08": ("cumulative task sets (durations/usages 0-4, usage > capacity, negative and view start times) under 6 (16 thorough) of the 144 CumulativeOptions combinations per model and random decision schedules; the solution set must equal the time-point definition for each", "§6 C08"),
 "C09": ("implied_by / reify / negation over every (half-)reifiable kind with the reification literal free, pre-fixed true or pre-fixed false; the scheduler fixes literal and variables in any order and restarts unfix them; solution set = {r false or c} / {r <=> c} / complement", "§6 C09"),
 "C10": ("operation histories (3-12 ops of new variable / post / add clause / satisfy / assume +- core / iterate k / optimise / bounds, incl. solves ending at level 0 and interrupts) on one solver; after every op: no panic, bounds oracle, and the op's own result oracle against the reference for the accumulated model", "§6 C10"),
 "C11": ("fault enumeration: for each sampled (model, knobs, schedule, operation) the uninterrupted twin gives the number of polls N; a fresh identical run is interrupted at every poll k in 0..N (sampled above 60 / 400) and the same solver is asked again with a clock that never fires", "§6 C11"),
 "C12": ("posting-only histories (variable creations interleaved with postings, views with negative / non-unit scale): after every op the reported bounds and literal values enclose every reference solution of the prefix, stay inside the declared domain and only tighten", "§6 C12"),
 "C13": ("the real command-line binary on generated FlatZinc models over the supported builtins with their standard meaning (1-based element, truncating division, set_in, bool_clause, pumpkin_all_different, pumpkin_cumulative, range / set / fixed declarations, search annotations) under seeded flags (-a, -f, optimisation strategy, resolver, restart / learning / cumulative options, -r seed): every printed block extends to a reference solution, -a prints exactly the projection of all solutions followed by ==========, =====UNSATISFIABLE===== iff no solution, the last block of an optimisation is optimal. Honest note: the schedule dimension is the configuration-induced search inside the binary; most of the finding power is the generated model", "§6 C13"),
 "C14": ("two run classes: the real chunked DIMACS parser over a simulated Read with every chunk boundary / short reads on generated layouts (comments, line breaks and comments inside clauses, tabs, CR LF, missing final newline): the parsed formula must equal the written one; and the real binary end to end: verdict against a truth-table reference, the v line satisfies every clause, and with --proof-path the proof passes an independent forward RUP check ending in the empty clause (files padded so that the 8 KiB buffer boundary lands inside the body)", "§6 C14"),
 "C15": ("the real binary on generated WCNF files (unit / empty / duplicate soft clauses, soft clauses decided at the root or read before the hard clauses that decide them, weights up to 2^31-2) under both upper-bound encodings and seeded search flags: s OPTIMUM FOUND with the brute-force optimum in the last o line and a model of exactly that cost, s UNSATISFIABLE iff the hard clauses are unsatisfiable; a per-run wall-clock limit turns non-termination into a verdict", "§6 C15"),
 "C20": ("TwinRun: library cases executed twice in one process (trace id over every decision, solution, poll count and learned nogood must be equal) and the binary executed twice on the same CNF / WCNF / FlatZinc file with the same flags and seed under perturbed ambient conditions (fresh process: new hash-map keys and address layout, different environment size, allocator perturbation, different directory): stdout minus wall-clock statistics, the proof file and the literal-definition file must be byte-identical", "§6 C20"),
 "C16": ("the magnitude swarm: every declared quantity (domain bounds, view images, right-hand sides, coefficients) fits 32 bits while sums and products do not (terms near 2^30 summing past 2^31, products of operands above 2^16, right-hand sides near the 32-bit limits, views with scale 2^15 / 2^16); linear <=, =, !=, times, division, absolute, maximum and element over such variables and views, solved under random schedules and compared with the i128 reference enumeration; the same units run on two builds of the same code - overflow checks on (any overflow is a panic, hence a violation) and off (the shipped wrap-around semantics must not change a result). Honest note: the quantifier is inputs only; the schedule matters (which intermediate bounds get multiplied) but the deciding ingredients are the generated magnitudes and the unbounded-arithmetic oracle", "§6 C16"),
 "C17": ("explanation tap (hook H1): every propagation's reason (eager at propagation time, lazy when evaluated, implicit-predicate reasons handed to conflict analysis) and every reported conflict is checked for truth of its facts in the state in which it is given and for sufficiency against the single tagged constraint by enumeration over its scope and the declared domains", "§6 C17"),
 "C19": ("stream simulation: generated step sequences (inferences with/without tag, label, conclusion, 0..n premises; nogoods with 0..n literals and absent / empty / non-empty hints; deletions; conclusion), literal-definition files and atomic constraints are written with the real ProofWriter / LiteralDefinitions::write into a simulated pipe that delivers bytes under a seeded schedule of short writes, short reads and retryable Interrupted errors, and read back with the real ProofReader / parser; sequences must be equal; atomics are negated twice. Honest note: above the std buffering layer the code is a pure function of its input, so the stream schedule is a thin dimension and the generated corner layouts carry most of the weight", "§6 C19"),
 "C18": ("decision tap (hook H3) while built-in branchers (11 x 14 selector matrix, default / alternating / dynamic / autonomous branchers) drive iterate-all runs: every proposal is undecided and over a variable of the brancher, None only when everything is fixed; plus termination and completeness of the enumeration", "§6 C18"),
}

def lib_check(pid):
    text, ref = LIB[pid]
    level = "fault_enumeration" if pid == "C11" else "exploration"
    return {
        "property_id": pid,
        "quick_cmd": f"./check {pid} quick",
        "thorough_cmd": f"./check {pid} thorough",
        "evidence_file": f"/verif/evidence/{pid}.json",
        "replay_cmd_template": f"./check {pid} --replay {{path}}",
        "engine": "pumpkin-sim",
        "level_claimed": {"category": level, "text": "Seeded deterministic simulation of the real library against an exhaustive reference model: " + text + ". Violations are minimised and written as explicit replay files.", "design_ref": ref},
        "level_note": SIM_NOTE,
        "technique": "deterministic simulation with fault injection (seeded decision/knob/interrupt schedules, reference-model oracle, replayable minimised cases)",
    }

def main():
    props = [json.loads(l) for l in open('/verif/properties.jsonl')]
    claimed = sorted(LIB.keys())
    hooks_commit = subprocess.run(["git", "-C", "/repo", "log", "--format=%h", "--grep=^verif hooks"], capture_output=True, text=True).stdout.split()
    manifest = {
        "version": 1,
        "setup_cmd": "cd /verif/sim && CARGO_NET_OFFLINE=true cargo build --release --offline && cargo build --profile nochecks --offline && cd /repo && CARGO_NET_OFFLINE=true cargo build --offline -p pumpkin-solver --bin pumpkin-solver --target-dir /verif/target/cli",
        "hooks": {
            "guard": "cargo feature `verif-hooks` of pumpkin-solver (off by default)",
            "enable": "the simulator crate /verif/sim depends on /repo/pumpkin-solver with features = [\"verif-hooks\"]; the command-line binary used by the front-end checks is built without the feature",
            "baseline_off_cmd": "cd /repo && cargo nextest run --workspace --no-fail-fast --tool-config-file pb:/w/lib/nextest.toml --profile pb --test-threads 8 --offline",
            "source_commits": hooks_commit,
            "add_only": True,
        },
        "engines": [{
            "name": "pumpkin-sim", "path": "/verif/sim", "serves_properties": claimed,
            "kind_free_text": "deterministic simulator: one PRNG (VERIF_SEED) decides model, engine knobs, decision schedule (Brancher seam), interrupt poll index (TerminationCondition seam) and operation history; reference model by exhaustive enumeration; worker processes under a watchdog; greedy shrinking; explicit replay files; known-findings protocol",
        }],
        "checks": [lib_check(p) for p in claimed],
        "not_applicable": [{"property_id": p["id"], "reason": "check under construction in this session (see DESIGN.md §12); will be claimed once its workload runs clean on the repaired tree"} for p in props if p["id"] not in claimed],
        "notes": "DESIGN.md explains the approach; KNOWN_FINDINGS.txt lists repaired (fixed:) and open (finding:) defects; known/fixed/*.json are regression replays of the repaired defects, known/KF-*.json demonstrate the open ones.",
    }
    json.dump(manifest, open('/verif/MANIFEST.json', 'w'), indent=1)

if __name__ == "__main__":
    main()
