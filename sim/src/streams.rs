//! Stream scenarios (K5): real writers / readers / parsers over a simulated byte pipe whose
//! delivery schedule (short writes, short reads, retryable `Interrupted`, chunk boundaries) is
//! decided by the seeded scheduler.
use std::cell::RefCell;
use std::io::{ErrorKind, Read, Write};
use std::num::{NonZeroI32, NonZeroU32, NonZeroU64};
use std::rc::Rc;

use drcp_format::reader::ProofReader;
use drcp_format::steps::{Conclusion, Step};
use drcp_format::writer::ProofWriter;
use drcp_format::{AtomicConstraint, BoolAtomicConstraint, Comparison, Format, IntAtomicConstraint, LiteralDefinitions};

use crate::exec::{Outcome, Stats, Violation};
use crate::json::J;
use crate::rng::{fnv, Rng};

// ---------------------------------------------------------------------------------------------
// The pipe
// ---------------------------------------------------------------------------------------------

/// The delivery schedule of one end of the pipe: entry k says what the k-th call does.
/// n > 0: transfer at most n bytes; 0: fail with `ErrorKind::Interrupted` (retryable).
#[derive(Clone, Debug, PartialEq)]
pub struct Schedule {
    pub steps: Vec<u32>,
    /// what to do once `steps` is exhausted (at most this many bytes per call)
    pub then: u32,
}

impl Schedule {
    pub fn unlimited() -> Schedule {
        Schedule { steps: vec![], then: 1 << 20 }
    }
    pub fn random(rng: &mut Rng) -> Schedule {
        match rng.below(6) {
            0 => Schedule::unlimited(),
            1 => Schedule { steps: vec![], then: 1 },
            2 => Schedule { steps: vec![], then: rng.range(2, 7) as u32 },
            _ => {
                let n = rng.range(1, 40) as usize;
                let steps = (0..n).map(|_| if rng.chance(0.2) { 0 } else { rng.range(1, 9) as u32 }).collect();
                Schedule { steps, then: *rng.pick(&[1u32, 3, 16, 1 << 20]) }
            }
        }
    }
    pub fn to_json(&self) -> J {
        J::obj(vec![("steps", J::Arr(self.steps.iter().map(|x| J::i(*x)).collect())), ("then", J::i(self.then))])
    }
    pub fn from_json(j: &J) -> Schedule {
        Schedule { steps: j.at("steps").as_arr().iter().map(|x| x.as_i64() as u32).collect(), then: j.at("then").as_i64() as u32 }
    }
}

#[derive(Default)]
pub struct FaultCounts {
    pub short_writes: u64,
    pub short_reads: u64,
    pub interrupted: u64,
    pub calls: u64,
}

pub struct PipeWriter {
    pub buf: Rc<RefCell<Vec<u8>>>,
    pub sched: Schedule,
    pub pos: usize,
    pub counts: Rc<RefCell<FaultCounts>>,
}

impl Write for PipeWriter {
    fn write(&mut self, data: &[u8]) -> std::io::Result<usize> {
        let step = self.sched.steps.get(self.pos).copied().unwrap_or(self.sched.then);
        self.pos += 1;
        let mut c = self.counts.borrow_mut();
        c.calls += 1;
        if step == 0 {
            c.interrupted += 1;
            return Err(std::io::Error::new(ErrorKind::Interrupted, "simulated EINTR"));
        }
        let n = data.len().min(step as usize);
        if n < data.len() {
            c.short_writes += 1;
        }
        self.buf.borrow_mut().extend_from_slice(&data[..n]);
        Ok(n)
    }
    fn flush(&mut self) -> std::io::Result<()> {
        Ok(())
    }
}

pub struct PipeReader {
    pub data: Vec<u8>,
    pub at: usize,
    pub sched: Schedule,
    pub pos: usize,
    pub counts: Rc<RefCell<FaultCounts>>,
}

impl Read for PipeReader {
    fn read(&mut self, out: &mut [u8]) -> std::io::Result<usize> {
        if self.at >= self.data.len() {
            return Ok(0);
        }
        let step = self.sched.steps.get(self.pos).copied().unwrap_or(self.sched.then);
        self.pos += 1;
        let mut c = self.counts.borrow_mut();
        c.calls += 1;
        if step == 0 {
            c.interrupted += 1;
            return Err(std::io::Error::new(ErrorKind::Interrupted, "simulated EINTR"));
        }
        let n = out.len().min(step as usize).min(self.data.len() - self.at);
        if n < out.len().min(self.data.len() - self.at) {
            c.short_reads += 1;
        }
        out[..n].copy_from_slice(&self.data[self.at..self.at + n]);
        self.at += n;
        Ok(n)
    }
}

// ---------------------------------------------------------------------------------------------
// DRCP round trip (C19)
// ---------------------------------------------------------------------------------------------

#[derive(Clone, Debug, PartialEq)]
pub enum GStep {
    Inference { tag: Option<u32>, label: Option<String>, premises: Vec<i32>, propagated: Option<i32> },
    Nogood { lits: Vec<i32>, hints: Option<Vec<u64>> },
    Delete(u64),
    Unsat,
    Optimal(i32),
}

#[derive(Clone, Debug, PartialEq)]
pub struct GAtomic {
    pub name: String,
    /// 0 >=, 1 <=, 2 ==, 3 !=, 4 bool
    pub cmp: u8,
    pub value: i64,
}

#[derive(Clone, Debug, PartialEq)]
pub struct DrcpCase {
    pub prop: String,
    pub steps: Vec<GStep>,
    pub defs: Vec<(u32, Vec<GAtomic>)>,
    pub atomics: Vec<GAtomic>,
    pub wsched: Schedule,
    pub rsched: Schedule,
}

fn gen_lit(rng: &mut Rng) -> i32 {
    if rng.chance(0.03) {
        // the most negative code has no positive counterpart
        return i32::MIN;
    }
    let m = match rng.below(10) {
        0 => i32::MAX,
        1 => rng.range32(1_000_000, i32::MAX - 1),
        _ => rng.range32(1, 40),
    };
    if rng.chance(0.5) {
        m
    } else {
        -m
    }
}

fn gen_ident(rng: &mut Rng) -> String {
    let first = b"abcxyzXY_";
    let rest = b"abcxyz019_XY";
    let mut s = String::new();
    s.push(*rng.pick(first) as char);
    for _ in 0..rng.below(8) {
        s.push(*rng.pick(rest) as char);
    }
    s
}

fn gen_atomic(rng: &mut Rng, extremes: bool) -> GAtomic {
    let cmp = rng.below(5) as u8;
    let value = if cmp == 4 {
        rng.below(2) as i64
    } else {
        match rng.below(8) {
            0 if extremes => i64::MAX,
            1 if extremes => i64::MIN,
            2 => i64::MAX - rng.range(1, 5),
            3 => i64::MIN + rng.range(1, 5),
            4 => rng.range(-(1 << 40), 1 << 40),
            _ => rng.range(-50, 50),
        }
    };
    GAtomic { name: gen_ident(rng), cmp, value }
}

impl DrcpCase {
    pub fn generate(prop: &str, rng: &mut Rng) -> DrcpCase {
        let n = rng.range(0, 10) as usize;
        let mut steps = vec![];
        for i in 0..n {
            let s = match rng.below(10) {
                0..=3 => GStep::Inference {
                    tag: if rng.chance(0.5) { Some(if rng.chance(0.1) { u32::MAX } else { rng.range(1, 50) as u32 }) } else { None },
                    label: if rng.chance(0.4) { Some(gen_ident(rng)) } else { None },
                    premises: (0..*rng.pick(&[0usize, 0, 1, 2, 3, 5])).map(|_| gen_lit(rng)).collect(),
                    propagated: if rng.chance(0.6) { Some(gen_lit(rng)) } else { None },
                },
                4..=7 => GStep::Nogood {
                    lits: (0..*rng.pick(&[0usize, 0, 1, 2, 4])).map(|_| gen_lit(rng)).collect(),
                    hints: match rng.below(3) {
                        0 => None,
                        1 => Some(vec![]),
                        _ => Some((0..rng.range(1, 4)).map(|_| if rng.chance(0.05) { u64::MAX } else { rng.range(1, i as i64 + 2) as u64 }).collect()),
                    },
                },
                _ => GStep::Delete(rng.range(1, i as i64 + 2) as u64),
            };
            steps.push(s);
        }
        match rng.below(4) {
            0 => steps.push(GStep::Unsat),
            1 => steps.push(GStep::Optimal(gen_lit(rng))),
            _ => {}
        }
        let ndefs = rng.range(0, 5) as usize;
        let mut defs: Vec<(u32, Vec<GAtomic>)> = vec![];
        for _ in 0..ndefs {
            let code = if rng.chance(0.1) { u32::MAX } else { rng.range(1, 100) as u32 };
            if defs.iter().any(|(c, _)| *c == code) {
                continue;
            }
            let k = rng.range(1, 3) as usize;
            defs.push((code, (0..k).map(|_| gen_atomic(rng, true)).collect()));
        }
        // double negation: the two unrepresentable extremes are a recorded finding (KF-003) and
        // only drawn in a small slice
        let extremes = rng.chance(0.03);
        let atomics = (0..rng.range(0, 4)).map(|_| gen_atomic(rng, extremes)).collect();
        DrcpCase { prop: prop.to_string(), steps, defs, atomics, wsched: Schedule::random(rng), rsched: Schedule::random(rng) }
    }

    pub fn to_json(&self) -> J {
        let at = |a: &GAtomic| J::obj(vec![("name", J::s(&a.name)), ("cmp", J::i(a.cmp)), ("value", J::Str(a.value.to_string()))]);
        let optu = |x: &Option<u32>| x.map(|v| J::i(v as i64)).unwrap_or(J::Null);
        J::obj(vec![
            ("type", J::s("drcp")),
            ("prop", J::s(&self.prop)),
            (
                "steps",
                J::Arr(
                    self.steps
                        .iter()
                        .map(|s| match s {
                            GStep::Inference { tag, label, premises, propagated } => J::obj(vec![
                                ("s", J::s("i")),
                                ("tag", optu(tag)),
                                ("label", label.as_ref().map(|l| J::s(l)).unwrap_or(J::Null)),
                                ("premises", J::ints(premises)),
                                ("propagated", propagated.map(|p| J::i(p)).unwrap_or(J::Null)),
                            ]),
                            GStep::Nogood { lits, hints } => J::obj(vec![
                                ("s", J::s("n")),
                                ("lits", J::ints(lits)),
                                ("hints", hints.as_ref().map(|h| J::Arr(h.iter().map(|x| J::u(*x)).collect())).unwrap_or(J::Null)),
                            ]),
                            GStep::Delete(id) => J::obj(vec![("s", J::s("d")), ("id", J::u(*id))]),
                            GStep::Unsat => J::obj(vec![("s", J::s("unsat"))]),
                            GStep::Optimal(l) => J::obj(vec![("s", J::s("optimal")), ("lit", J::i(*l))]),
                        })
                        .collect(),
                ),
            ),
            ("defs", J::Arr(self.defs.iter().map(|(c, a)| J::obj(vec![("code", J::i(*c as i64)), ("atomics", J::Arr(a.iter().map(at).collect()))])).collect())),
            ("atomics", J::Arr(self.atomics.iter().map(at).collect())),
            ("wsched", self.wsched.to_json()),
            ("rsched", self.rsched.to_json()),
        ])
    }

    pub fn from_json(j: &J) -> DrcpCase {
        let at = |a: &J| GAtomic { name: a.at("name").as_str().to_string(), cmp: a.at("cmp").as_i64() as u8, value: a.at("value").as_str().parse().unwrap() };
        DrcpCase {
            prop: j.at("prop").as_str().to_string(),
            steps: j
                .at("steps")
                .as_arr()
                .iter()
                .map(|s| match s.at("s").as_str() {
                    "i" => GStep::Inference {
                        tag: if s.at("tag").is_null() { None } else { Some(s.at("tag").as_i64() as u32) },
                        label: if s.at("label").is_null() { None } else { Some(s.at("label").as_str().to_string()) },
                        premises: s.at("premises").as_ints(),
                        propagated: if s.at("propagated").is_null() { None } else { Some(s.at("propagated").as_i32()) },
                    },
                    "n" => GStep::Nogood { lits: s.at("lits").as_ints(), hints: if s.at("hints").is_null() { None } else { Some(s.at("hints").as_arr().iter().map(|x| x.as_u64()).collect()) } },
                    "d" => GStep::Delete(s.at("id").as_u64()),
                    "unsat" => GStep::Unsat,
                    _ => GStep::Optimal(s.at("lit").as_i32()),
                })
                .collect(),
            defs: j.at("defs").as_arr().iter().map(|d| (d.at("code").as_i64() as u32, d.at("atomics").as_arr().iter().map(at).collect())).collect(),
            atomics: j.at("atomics").as_arr().iter().map(at).collect(),
            wsched: Schedule::from_json(j.at("wsched")),
            rsched: Schedule::from_json(j.at("rsched")),
        }
    }

    pub fn candidates(&self) -> Vec<DrcpCase> {
        let mut out = vec![];
        for i in (0..self.steps.len()).rev() {
            let mut c = self.clone();
            c.steps.remove(i);
            out.push(c);
        }
        for i in (0..self.defs.len()).rev() {
            let mut c = self.clone();
            c.defs.remove(i);
            out.push(c);
        }
        for i in (0..self.atomics.len()).rev() {
            let mut c = self.clone();
            c.atomics.remove(i);
            out.push(c);
        }
        if self.wsched != Schedule::unlimited() {
            let mut c = self.clone();
            c.wsched = Schedule::unlimited();
            out.push(c);
        }
        if self.rsched != Schedule::unlimited() {
            let mut c = self.clone();
            c.rsched = Schedule::unlimited();
            out.push(c);
        }
        for (i, s) in self.steps.iter().enumerate() {
            match s {
                GStep::Inference { tag, label, premises, propagated } => {
                    let mut alts = vec![];
                    if tag.is_some() {
                        alts.push(GStep::Inference { tag: None, label: label.clone(), premises: premises.clone(), propagated: *propagated });
                    }
                    if label.is_some() {
                        alts.push(GStep::Inference { tag: *tag, label: None, premises: premises.clone(), propagated: *propagated });
                    }
                    if !premises.is_empty() {
                        alts.push(GStep::Inference { tag: *tag, label: label.clone(), premises: premises[1..].to_vec(), propagated: *propagated });
                    }
                    for a in alts {
                        let mut c = self.clone();
                        c.steps[i] = a;
                        out.push(c);
                    }
                }
                GStep::Nogood { lits, hints } => {
                    if !lits.is_empty() {
                        let mut c = self.clone();
                        c.steps[i] = GStep::Nogood { lits: lits[1..].to_vec(), hints: hints.clone() };
                        out.push(c);
                    }
                    if let Some(h) = hints {
                        if !h.is_empty() {
                            let mut c = self.clone();
                            c.steps[i] = GStep::Nogood { lits: lits.clone(), hints: Some(h[1..].to_vec()) };
                            out.push(c);
                        }
                    }
                }
                _ => {}
            }
        }
        out
    }

    pub fn run(&self) -> Outcome {
        let mut stats = Stats::default();
        let counts = Rc::new(RefCell::new(FaultCounts::default()));
        let violation = self.run_inner(&counts).err();
        let c = counts.borrow();
        stats.polls = c.calls;
        stats.faults_fired = c.interrupted + c.short_reads + c.short_writes;
        stats.probes.insert("stream_interrupted".into(), c.interrupted);
        stats.probes.insert("stream_short_reads".into(), c.short_reads);
        stats.probes.insert("stream_short_writes".into(), c.short_writes);
        // decisions >= 2 makes a run "non-trivial": at least two chunks were delivered
        stats.decisions = c.calls;
        let trace = fnv(self.to_json().to_string().as_bytes());
        Outcome { violation, trace, stats, polls_per_op: vec![], aborted: None }
    }

    fn run_inner(&self, counts: &Rc<RefCell<FaultCounts>>) -> Result<(), Violation> {
        let viol = |class: &str, msg: String| Violation { class: class.to_string(), msg, op_index: 0 };
        // ---- proof steps: writer -> pipe -> reader ----
        let buf = Rc::new(RefCell::new(Vec::new()));
        {
            let sink = PipeWriter { buf: buf.clone(), sched: self.wsched.clone(), pos: 0, counts: counts.clone() };
            let identity = |l: NonZeroI32| l;
            let mut writer = ProofWriter::new(Format::Text, sink, identity);
            let nz = |x: i32| NonZeroI32::new(x).unwrap();
            let mut concluded = false;
            let io = |e: std::io::Error| viol("H-ROUNDTRIP:write-error", format!("the writer failed on a retryable / short-write schedule: {e}"));
            for (i, s) in self.steps.iter().enumerate() {
                match s {
                    GStep::Inference { tag, label, premises, propagated } => {
                        let _ = writer.log_inference(tag.and_then(NonZeroU32::new), label.as_deref(), premises.iter().map(|x| nz(*x)), propagated.map(nz)).map_err(io)?;
                    }
                    GStep::Nogood { lits, hints } => {
                        let _ = writer.log_nogood_clause(lits.iter().map(|x| nz(*x)), hints.as_ref().map(|h| h.iter().map(|x| NonZeroU64::new(*x).unwrap()).collect::<Vec<_>>())).map_err(io)?;
                    }
                    GStep::Delete(id) => writer.log_deletion(NonZeroU64::new(*id).unwrap()).map_err(io)?,
                    GStep::Unsat => {
                        assert!(i + 1 == self.steps.len());
                        let _ = writer.unsat().map_err(io)?;
                        concluded = true;
                        break;
                    }
                    GStep::Optimal(l) => {
                        assert!(i + 1 == self.steps.len());
                        let _ = writer.optimal(nz(*l)).map_err(io)?;
                        concluded = true;
                        break;
                    }
                }
                if i + 1 == self.steps.len() {
                    break;
                }
            }
            // (if there was no conclusion step, dropping the writer flushes its buffer)
            let _ = concluded;
        }
        let bytes = buf.borrow().clone();
        let text = String::from_utf8_lossy(&bytes).to_string();
        let source = PipeReader { data: bytes, at: 0, sched: self.rsched.clone(), pos: 0, counts: counts.clone() };
        let mut reader = ProofReader::new(source, |l: NonZeroI32| l);
        let mut next_id = 1u64;
        for (i, s) in self.steps.iter().enumerate() {
            let got = reader.next_step().map_err(|e| viol("H-ROUNDTRIP:reader-rejects-writer-output", format!("step #{i} {s:?}: the reader fails on what the writer wrote ({e}); file:\n{text}")))?;
            let Some(got) = got else {
                return Err(viol("H-ROUNDTRIP:step-missing", format!("step #{i} {s:?}: the reader reports the end of the proof; file:\n{text}")));
            };
            let same = match (s, &got) {
                (GStep::Inference { tag, label, premises, propagated }, Step::Inference(inf)) => {
                    inf.id.get() == next_id
                        && inf.hint_constraint_id.map(|t| t.get()) == tag.and_then(NonZeroU32::new).map(|t| t.get())
                        && inf.hint_label == label.as_deref()
                        && inf.premises.iter().map(|l| l.get()).collect::<Vec<_>>() == *premises
                        && inf.propagated.map(|l| l.get()) == *propagated
                }
                (GStep::Nogood { lits, hints }, Step::Nogood(n)) => {
                    n.id.get() == next_id && n.literals.iter().map(|l| l.get()).collect::<Vec<_>>() == *lits && n.hints.as_ref().map(|h| h.iter().map(|x| x.get()).collect::<Vec<_>>()) == *hints
                }
                (GStep::Delete(id), Step::Delete(d)) => d.id.get() == *id,
                (GStep::Unsat, Step::Conclusion(Conclusion::Unsatisfiable)) => true,
                (GStep::Optimal(l), Step::Conclusion(Conclusion::Optimal(g))) => g.get() == *l,
                _ => false,
            };
            if matches!(s, GStep::Inference { .. } | GStep::Nogood { .. }) {
                next_id += 1;
            }
            if !same {
                return Err(viol("H-ROUNDTRIP:step-differs", format!("step #{i}: wrote {s:?}, read {got:?}; file:\n{text}")));
            }
        }
        match reader.next_step() {
            Ok(None) => {}
            other => return Err(viol("H-ROUNDTRIP:extra-step", format!("the reader produced a step that was never written: {other:?}; file:\n{text}"))),
        }

        // ---- literal definitions ----
        let conv = |a: &GAtomic| -> AtomicConstraint<String> {
            if a.cmp == 4 {
                AtomicConstraint::Bool(BoolAtomicConstraint { name: a.name.clone(), value: a.value != 0 })
            } else {
                let comparison = [Comparison::GreaterThanEqual, Comparison::LessThanEqual, Comparison::Equal, Comparison::NotEqual][a.cmp as usize];
                AtomicConstraint::Int(IntAtomicConstraint { name: a.name.clone(), comparison, value: a.value })
            }
        };
        if !self.defs.is_empty() {
            let mut defs: LiteralDefinitions<String> = LiteralDefinitions::default();
            for (code, atomics) in &self.defs {
                for a in atomics {
                    defs.add(NonZeroU32::new(*code).unwrap(), conv(a));
                }
            }
            let buf = Rc::new(RefCell::new(Vec::new()));
            let sink = PipeWriter { buf: buf.clone(), sched: self.wsched.clone(), pos: 0, counts: counts.clone() };
            // `write!` on an unbuffered sink uses write_all, which retries short writes and EINTR
            defs.write(sink).map_err(|e| viol("H-ROUNDTRIP:definitions-write-error", format!("{e}")))?;
            let bytes = buf.borrow().clone();
            let text = String::from_utf8_lossy(&bytes).to_string();
            let source = PipeReader { data: bytes, at: 0, sched: self.rsched.clone(), pos: 0, counts: counts.clone() };
            let parsed: LiteralDefinitions<String> =
                LiteralDefinitions::parse(source).map_err(|e| viol("H-ROUNDTRIP:definitions-rejected", format!("the parser rejects a literal definition file written by the library ({e}); file:\n{text}")))?;
            for (code, atomics) in &self.defs {
                let expect: Vec<AtomicConstraint<String>> = atomics.iter().map(conv).collect();
                let got = parsed.get(NonZeroU32::new(*code).unwrap());
                if got != Some(expect.as_slice()) {
                    return Err(viol("H-ROUNDTRIP:definitions-differ", format!("code {code}: wrote {expect:?}, read {got:?}; file:\n{text}")));
                }
            }
        }

        // ---- double negation ----
        for a in &self.atomics {
            let x = conv(a);
            let y = !(!x.clone());
            if x != y {
                return Err(viol("H-ROUNDTRIP:double-negation", format!("!!{x:?} = {y:?}")));
            }
        }
        Ok(())
    }
}
