//! C14 (parser half): the real chunked DIMACS parser over a simulated `Read` whose chunk
//! boundaries are chosen by the scheduler; every layout of a formula must parse to the formula.
use std::cell::RefCell;
use std::num::{NonZeroI32, NonZeroU32};
use std::rc::Rc;

use crate::exec::{Outcome, Stats, Violation};
use crate::json::J;
use crate::rng::{fnv, Rng};
use crate::streams::{FaultCounts, PipeReader, Schedule};

#[allow(dead_code, unused_imports, clippy::all)]
#[path = "/repo/pumpkin-solver/src/bin/pumpkin-solver/parsers/dimacs.rs"]
mod dimacs;

use dimacs::{parse_cnf, parse_wcnf, DimacsSink};

#[derive(Default, Debug)]
struct RecordingSink {
    num_variables: usize,
    hard: Vec<Vec<i32>>,
    soft: Vec<(u32, Vec<i32>)>,
}

impl DimacsSink for RecordingSink {
    type ConstructorArgs = ();
    fn empty(_: (), num_variables: usize) -> Self {
        RecordingSink { num_variables, hard: vec![], soft: vec![] }
    }
    fn add_hard_clause(&mut self, clause: &[NonZeroI32]) {
        self.hard.push(clause.iter().map(|l| l.get()).collect());
    }
    fn add_soft_clause(&mut self, weight: NonZeroU32, clause: &[NonZeroI32]) {
        self.soft.push((weight.get(), clause.iter().map(|l| l.get()).collect()));
    }
}

#[derive(Clone, Debug, PartialEq)]
pub struct DimacsCase {
    pub prop: String,
    pub wcnf: bool,
    pub num_vars: usize,
    /// (weight, literals); weight == top means hard; for CNF the weight is ignored
    pub clauses: Vec<(u64, Vec<i32>)>,
    pub top: u64,
    /// the file as it is fed to the parser
    pub text: String,
    pub rsched: Schedule,
}

/// Renders the formula under a seeded choice of layout.
pub fn render(rng: &mut Rng, wcnf: bool, num_vars: usize, clauses: &[(u64, Vec<i32>)], top: u64, wild: bool) -> String {
    let mut s = String::new();
    let nl = if wild && rng.chance(0.2) { "\r\n" } else { "\n" };
    let comment = |rng: &mut Rng, s: &mut String| {
        if wild && rng.chance(0.25) {
            let texts = ["c", "c comment", "c p cnf 9 9", "c 1 2 0", "c\t-3"];
            s.push_str(*rng.pick(&texts));
            s.push_str(nl);
        }
    };
    comment(rng, &mut s);
    if wild && rng.chance(0.15) {
        s.push_str(nl);
    }
    if wcnf {
        s.push_str(&format!("p wcnf {} {} {}", num_vars, clauses.len(), top));
    } else {
        s.push_str(&format!("p cnf {} {}", num_vars, clauses.len()));
    }
    s.push_str(nl);
    let sep = |rng: &mut Rng, s: &mut String, in_clause: bool| {
        if !wild {
            s.push(' ');
            return;
        }
        match rng.below(13) {
            0 => s.push_str("  "),
            1 => s.push('\t'),
            // runs of mixed whitespace
            12 => s.push_str(*rng.pick(&[" \t", "\t ", "\t\t", " \t "])),
            2 if in_clause => {
                // a line break inside the clause, possibly followed by a comment line
                s.push_str(nl);
                if rng.chance(0.3) {
                    s.push_str("c inside a clause");
                    s.push_str(nl);
                }
                if rng.chance(0.3) {
                    s.push_str("  ");
                }
            }
            3 if in_clause => {
                s.push(' ');
                s.push_str(nl);
            }
            _ => s.push(' '),
        }
    };
    for (ci, (w, lits)) in clauses.iter().enumerate() {
        // comments only start at the beginning of a line
        if s.ends_with('\n') {
            comment(rng, &mut s);
        }
        if wild && rng.chance(0.1) {
            s.push_str("  ");
        }
        let mut first = true;
        if wcnf {
            s.push_str(&w.to_string());
            first = false;
        }
        for l in lits {
            if !first {
                sep(rng, &mut s, true);
            }
            first = false;
            s.push_str(&l.to_string());
        }
        if !first {
            sep(rng, &mut s, true);
        }
        s.push('0');
        if wild && rng.chance(0.12) {
            // whitespace between the terminating 0 and the end of the line
            s.push_str(*rng.pick(&[" ", "\t", "  ", " \t"]));
        }
        let last = ci + 1 == clauses.len();
        if last && wild && rng.chance(0.3) {
            // no newline after the final 0
        } else if wild && rng.chance(0.15) && !last {
            // two clauses on one line
            s.push(' ');
        } else {
            s.push_str(nl);
        }
    }
    if wild && rng.chance(0.2) && s.ends_with('\n') {
        s.push_str("c trailing comment");
        if rng.chance(0.5) {
            s.push_str(nl);
        }
    }
    s
}

impl DimacsCase {
    pub fn generate(prop: &str, rng: &mut Rng) -> DimacsCase {
        let wcnf = rng.chance(0.3);
        let num_vars = rng.range(1, 12) as usize;
        let n = *rng.pick(&[0usize, 1, 1, 2, 3, 5, 8]);
        // weights are parsed like literals (32-bit): the admitted range is below 2^31
        let top = if wcnf { *rng.pick(&[2u64, 5, 100, (1 << 31) - 1]) } else { 0 };
        let clauses: Vec<(u64, Vec<i32>)> = (0..n)
            .map(|_| {
                let k = *rng.pick(&[0usize, 1, 1, 2, 3, 3, 6]);
                let lits = (0..k)
                    .map(|_| {
                        let v = if rng.chance(0.1) { rng.range32(100_000, i32::MAX) } else { rng.range32(1, num_vars as i32) };
                        if rng.chance(0.5) {
                            v
                        } else {
                            -v
                        }
                    })
                    .collect();
                let w = if !wcnf {
                    0
                } else if rng.chance(0.4) {
                    top
                } else {
                    rng.range(1, (top - 1).min(u32::MAX as u64 - 1) as i64) as u64
                };
                (w, lits)
            })
            .collect();
        let wild = rng.chance(0.8);
        let text = render(rng, wcnf, num_vars, &clauses, top, wild);
        // chunk schedule: every two-chunk split position is hit by some seed; also 1-byte reads
        let mut rsched = match rng.below(4) {
            0 => Schedule { steps: vec![rng.range(1, text.len().max(1) as i64) as u32], then: 1 << 20 },
            _ => Schedule::random(rng),
        };
        // No retryable `Interrupted` here: the parser propagates it as an error (it calls
        // `fill_buf` itself), but I/O errors are outside what C14 states. Short reads / chunk
        // boundaries at every byte position are what any `Read` may deliver.
        for s in rsched.steps.iter_mut() {
            if *s == 0 {
                *s = 1;
            }
        }
        DimacsCase { prop: prop.to_string(), wcnf, num_vars, clauses, top, text, rsched }
    }

    pub fn to_json(&self) -> J {
        J::obj(vec![
            ("type", J::s("dimacs")),
            ("prop", J::s(&self.prop)),
            ("wcnf", J::Bool(self.wcnf)),
            ("num_vars", J::u(self.num_vars as u64)),
            ("top", J::u(self.top)),
            ("clauses", J::Arr(self.clauses.iter().map(|(w, l)| J::obj(vec![("w", J::u(*w)), ("lits", J::ints(l))])).collect())),
            ("text", J::s(&self.text)),
            ("rsched", self.rsched.to_json()),
        ])
    }

    pub fn from_json(j: &J) -> DimacsCase {
        DimacsCase {
            prop: j.at("prop").as_str().to_string(),
            wcnf: j.at("wcnf").as_bool(),
            num_vars: j.at("num_vars").as_usize(),
            top: j.at("top").as_u64(),
            clauses: j.at("clauses").as_arr().iter().map(|c| (c.at("w").as_u64(), c.at("lits").as_ints())).collect(),
            text: j.at("text").as_str().to_string(),
            rsched: Schedule::from_json(j.at("rsched")),
        }
    }

    /// Simplifications that keep text and formula in sync: re-render plainly, drop clauses.
    pub fn candidates(&self) -> Vec<DimacsCase> {
        let mut out = vec![];
        let mut rng = Rng::new(1);
        let plain = render(&mut rng, self.wcnf, self.num_vars, &self.clauses, self.top, false);
        if plain != self.text {
            let mut c = self.clone();
            c.text = plain;
            out.push(c);
        }
        if self.rsched != Schedule::unlimited() {
            let mut c = self.clone();
            c.rsched = Schedule::unlimited();
            out.push(c);
        }
        // dropping a clause is only possible on the plain rendering
        let plain_now = render(&mut Rng::new(1), self.wcnf, self.num_vars, &self.clauses, self.top, false) == self.text;
        if plain_now {
            for i in (0..self.clauses.len()).rev() {
                let mut c = self.clone();
                c.clauses.remove(i);
                c.text = render(&mut Rng::new(1), c.wcnf, c.num_vars, &c.clauses, c.top, false);
                out.push(c);
            }
        } else {
            // textual simplifications: drop one line that is a comment or empty
            let lines: Vec<&str> = self.text.split_inclusive('\n').collect();
            for i in 0..lines.len() {
                let t = lines[i].trim();
                if t.starts_with('c') || t.is_empty() {
                    let mut c = self.clone();
                    c.text = lines.iter().enumerate().filter(|(j, _)| *j != i).map(|(_, l)| *l).collect();
                    out.push(c);
                }
            }
            if self.text.contains('\r') {
                let mut c = self.clone();
                c.text = self.text.replace('\r', "");
                out.push(c);
            }
            if self.text.contains('\t') {
                let mut c = self.clone();
                c.text = self.text.replace('\t', " ");
                out.push(c);
            }
        }
        out
    }

    pub fn run(&self) -> Outcome {
        let counts = Rc::new(RefCell::new(FaultCounts::default()));
        let violation = self.run_inner(&counts).err();
        let c = counts.borrow();
        let mut stats = Stats::default();
        stats.polls = c.calls;
        stats.decisions = c.calls;
        stats.faults_fired = c.interrupted + c.short_reads;
        stats.probes.insert("stream_interrupted".into(), c.interrupted);
        stats.probes.insert("stream_short_reads".into(), c.short_reads);
        Outcome { violation, trace: fnv(self.to_json().to_string().as_bytes()), stats, polls_per_op: vec![], aborted: None }
    }

    fn run_inner(&self, counts: &Rc<RefCell<FaultCounts>>) -> Result<(), Violation> {
        let viol = |class: &str, msg: String| Violation { class: class.to_string(), msg, op_index: 0 };
        let source = PipeReader { data: self.text.as_bytes().to_vec(), at: 0, sched: self.rsched.clone(), pos: 0, counts: counts.clone() };
        let parsed: Result<RecordingSink, _> = if self.wcnf { parse_wcnf(source, ()) } else { parse_cnf(source, ()) };
        let sink = parsed.map_err(|e| viol("H-PARSE:well-formed-file-rejected", format!("the parser rejects a well-formed file ({e}):\n{:?}", self.text)))?;
        let hard: Vec<Vec<i32>> = self.clauses.iter().filter(|(w, _)| !self.wcnf || *w == self.top).map(|(_, l)| l.clone()).collect();
        let soft: Vec<(u32, Vec<i32>)> = self.clauses.iter().filter(|(w, _)| self.wcnf && *w != self.top).map(|(w, l)| (*w as u32, l.clone())).collect();
        if sink.num_variables != self.num_vars {
            return Err(viol("H-PARSE:variable-count-differs", format!("header says {} variables, parser reports {}", self.num_vars, sink.num_variables)));
        }
        if sink.hard != hard || sink.soft != soft {
            return Err(viol(
                "H-PARSE:formula-differs",
                format!("the parsed formula differs from the written one: hard {:?} vs {:?}, soft {:?} vs {:?}; file:\n{:?}", sink.hard, hard, sink.soft, soft, self.text),
            ));
        }
        Ok(())
    }
}
