//! Simulator-side model IR, independent of Pumpkin's types, with the reference evaluator.
//!
//! `holds` is written from the *documentation* of each constraint, in i128 arithmetic.
use crate::json::J;

#[derive(Clone, Copy, Debug, PartialEq, Eq, Hash, PartialOrd, Ord)]
pub enum VarKind {
    Bool,
    Interval,
    Sparse,
}

#[derive(Clone, Debug, PartialEq, Eq)]
pub struct VarDecl {
    /// Sorted, unique, non-empty.
    pub values: Vec<i32>,
    pub kind: VarKind,
    /// A Boolean created with `Solver::new_literal_for_predicate`: true iff the predicate (over
    /// an earlier variable) holds.
    pub link: Option<Pred>,
}

impl VarDecl {
    pub fn boolean() -> VarDecl {
        VarDecl { values: vec![0, 1], kind: VarKind::Bool, link: None }
    }
    pub fn interval(lb: i32, ub: i32) -> VarDecl {
        VarDecl { values: (lb..=ub).collect(), kind: VarKind::Interval, link: None }
    }
    pub fn sparse(mut values: Vec<i32>) -> VarDecl {
        values.sort();
        values.dedup();
        VarDecl { values, kind: VarKind::Sparse, link: None }
    }
    pub fn linked(p: Pred) -> VarDecl {
        VarDecl { values: vec![0, 1], kind: VarKind::Bool, link: Some(p) }
    }
    pub fn lb(&self) -> i32 {
        self.values[0]
    }
    pub fn ub(&self) -> i32 {
        *self.values.last().unwrap()
    }
    pub fn is_bool(&self) -> bool {
        self.kind == VarKind::Bool
    }
    pub fn to_json(&self) -> J {
        match self.kind {
            VarKind::Bool => match &self.link {
                Some(p) => J::obj(vec![("bool_for", p.to_json())]),
                None => J::s("bool"),
            },
            VarKind::Interval => J::obj(vec![("lb", J::i(self.lb())), ("ub", J::i(self.ub()))]),
            VarKind::Sparse => J::obj(vec![("values", J::ints(&self.values))]),
        }
    }
    pub fn from_json(j: &J) -> VarDecl {
        match j {
            J::Str(_) => VarDecl::boolean(),
            _ => {
                if let Some(p) = j.get("bool_for") {
                    VarDecl::linked(Pred::from_json(p))
                } else if let Some(v) = j.get("values") {
                    VarDecl::sparse(v.as_ints())
                } else {
                    VarDecl::interval(j.at("lb").as_i32(), j.at("ub").as_i32())
                }
            }
        }
    }
}

/// `scale * x_var + off`
#[derive(Clone, Copy, Debug, PartialEq, Eq, Hash)]
pub struct View {
    pub var: usize,
    pub scale: i32,
    pub off: i32,
}

impl View {
    pub fn plain(var: usize) -> View {
        View { var, scale: 1, off: 0 }
    }
    pub fn eval(&self, a: &[i32]) -> i128 {
        self.scale as i128 * a[self.var] as i128 + self.off as i128
    }
    pub fn eval_value(&self, v: i32) -> i128 {
        self.scale as i128 * v as i128 + self.off as i128
    }
    pub fn to_json(&self) -> J {
        J::Arr(vec![J::i(self.var as i64), J::i(self.scale), J::i(self.off)])
    }
    pub fn from_json(j: &J) -> View {
        let a = j.as_arr();
        View { var: a[0].as_usize(), scale: a[1].as_i32(), off: a[2].as_i32() }
    }
}

#[derive(Clone, Copy, Debug, PartialEq, Eq, Hash, PartialOrd, Ord)]
pub enum Pk {
    Ge,
    Le,
    Eq,
    Ne,
}

impl Pk {
    pub const ALL: [Pk; 4] = [Pk::Ge, Pk::Le, Pk::Eq, Pk::Ne];
    pub fn name(self) -> &'static str {
        match self {
            Pk::Ge => ">=",
            Pk::Le => "<=",
            Pk::Eq => "==",
            Pk::Ne => "!=",
        }
    }
    pub fn from_name(s: &str) -> Pk {
        match s {
            ">=" => Pk::Ge,
            "<=" => Pk::Le,
            "==" => Pk::Eq,
            "!=" => Pk::Ne,
            _ => panic!("bad predicate kind {s}"),
        }
    }
    pub fn test(self, x: i64, v: i64) -> bool {
        match self {
            Pk::Ge => x >= v,
            Pk::Le => x <= v,
            Pk::Eq => x == v,
            Pk::Ne => x != v,
        }
    }
}

/// An atomic predicate over a plain model variable.
#[derive(Clone, Copy, Debug, PartialEq, Eq, Hash, PartialOrd, Ord)]
pub struct Pred {
    pub var: usize,
    pub k: Pk,
    pub val: i32,
}

impl Pred {
    pub fn holds(&self, a: &[i32]) -> bool {
        self.k.test(a[self.var] as i64, self.val as i64)
    }
    pub fn holds_value(&self, x: i32) -> bool {
        self.k.test(x as i64, self.val as i64)
    }
    pub fn negate(&self) -> Pred {
        match self.k {
            Pk::Ge => Pred { var: self.var, k: Pk::Le, val: self.val - 1 },
            Pk::Le => Pred { var: self.var, k: Pk::Ge, val: self.val + 1 },
            Pk::Eq => Pred { var: self.var, k: Pk::Ne, val: self.val },
            Pk::Ne => Pred { var: self.var, k: Pk::Eq, val: self.val },
        }
    }
    pub fn to_json(&self) -> J {
        J::Arr(vec![J::i(self.var as i64), J::s(self.k.name()), J::i(self.val)])
    }
    pub fn from_json(j: &J) -> Pred {
        let a = j.as_arr();
        Pred { var: a[0].as_usize(), k: Pk::from_name(a[1].as_str()), val: a[2].as_i32() }
    }
    pub fn show(&self) -> String {
        format!("[x{} {} {}]", self.var, self.k.name(), self.val)
    }
}

/// A literal over a Boolean model variable.
#[derive(Clone, Copy, Debug, PartialEq, Eq, Hash)]
pub struct Lit {
    pub var: usize,
    pub pos: bool,
}

impl Lit {
    pub fn holds(&self, a: &[i32]) -> bool {
        (a[self.var] == 1) == self.pos
    }
    pub fn to_json(&self) -> J {
        J::Arr(vec![J::i(self.var as i64), J::Bool(self.pos)])
    }
    pub fn from_json(j: &J) -> Lit {
        let a = j.as_arr();
        Lit { var: a[0].as_usize(), pos: a[1].as_bool() }
    }
}

#[derive(Clone, Debug, PartialEq, Eq)]
pub enum Con {
    LinLe(Vec<View>, i32),
    LinEq(Vec<View>, i32),
    LinNe(Vec<View>, i32),
    BinEq(View, View),
    BinNe(View, View),
    BinLe(View, View),
    BinLt(View, View),
    Plus(View, View, View),
    Times(View, View, View),
    /// numerator / denominator = rhs, truncating; denominator never 0
    Div(View, View, View),
    Abs(View, View),
    Max(Vec<View>, View),
    Min(Vec<View>, View),
    /// 0-indexed (library semantics)
    Element(View, Vec<View>, View),
    AllDiff(Vec<View>),
    /// sum w_i * b_i <= rhs
    BoolLe(Vec<i32>, Vec<Lit>, i32),
    /// sum w_i * b_i == x_var
    BoolEq(Vec<i32>, Vec<Lit>, usize),
    LitClause(Vec<Lit>),
    LitConj(Vec<Lit>),
    /// `Solver::add_clause` over arbitrary predicates
    PredClause(Vec<Pred>),
    /// `Solver::add_clause` over predicates written on views: `[scale * x + off  op  value]`
    ViewClause(Vec<(View, Pk, i32)>),
    Cumulative { starts: Vec<View>, durations: Vec<i32>, usages: Vec<i32>, capacity: i32, options: u32 },
    /// `NegatableConstraint::negation`
    Not(Box<Con>),
    /// `implied_by(lit)`
    Half(Box<Con>, Lit),
    /// `reify(lit)`
    Reif(Box<Con>, Lit),
}

fn trunc_div(a: i128, b: i128) -> i128 {
    a / b // Rust's `/` truncates toward zero
}

impl Con {
    pub fn holds(&self, a: &[i32]) -> bool {
        match self {
            Con::LinLe(t, r) => t.iter().map(|v| v.eval(a)).sum::<i128>() <= *r as i128,
            Con::LinEq(t, r) => t.iter().map(|v| v.eval(a)).sum::<i128>() == *r as i128,
            Con::LinNe(t, r) => t.iter().map(|v| v.eval(a)).sum::<i128>() != *r as i128,
            Con::BinEq(x, y) => x.eval(a) == y.eval(a),
            Con::BinNe(x, y) => x.eval(a) != y.eval(a),
            Con::BinLe(x, y) => x.eval(a) <= y.eval(a),
            Con::BinLt(x, y) => x.eval(a) < y.eval(a),
            Con::Plus(x, y, z) => x.eval(a) + y.eval(a) == z.eval(a),
            Con::Times(x, y, z) => x.eval(a) * y.eval(a) == z.eval(a),
            Con::Div(x, y, z) => {
                let d = y.eval(a);
                d != 0 && trunc_div(x.eval(a), d) == z.eval(a)
            }
            Con::Abs(x, y) => x.eval(a).abs() == y.eval(a),
            Con::Max(xs, y) => xs.iter().map(|v| v.eval(a)).max().unwrap() == y.eval(a),
            Con::Min(xs, y) => xs.iter().map(|v| v.eval(a)).min().unwrap() == y.eval(a),
            Con::Element(i, xs, e) => {
                let i = i.eval(a);
                i >= 0 && (i as usize) < xs.len() && xs[i as usize].eval(a) == e.eval(a)
            }
            Con::AllDiff(xs) => {
                let vals: Vec<i128> = xs.iter().map(|v| v.eval(a)).collect();
                for i in 0..vals.len() {
                    for j in i + 1..vals.len() {
                        if vals[i] == vals[j] {
                            return false;
                        }
                    }
                }
                true
            }
            Con::BoolLe(w, b, r) => {
                w.iter().zip(b).map(|(w, b)| if b.holds(a) { *w as i128 } else { 0 }).sum::<i128>() <= *r as i128
            }
            Con::BoolEq(w, b, x) => {
                w.iter().zip(b).map(|(w, b)| if b.holds(a) { *w as i128 } else { 0 }).sum::<i128>() == a[*x] as i128
            }
            Con::LitClause(ls) => ls.iter().any(|l| l.holds(a)),
            Con::LitConj(ls) => ls.iter().all(|l| l.holds(a)),
            Con::PredClause(ps) => ps.iter().any(|p| p.holds(a)),
            Con::ViewClause(ps) => ps.iter().any(|(v, k, val)| k.test(v.eval(a) as i64, *val as i64)),
            Con::Cumulative { starts, durations, usages, capacity, .. } => {
                let st: Vec<i128> = starts.iter().map(|v| v.eval(a)).collect();
                // The usage profile only increases at start points of tasks that actually run.
                for (k, t) in st.iter().enumerate() {
                    if durations[k] <= 0 {
                        continue;
                    }
                    let mut u = 0i128;
                    for j in 0..st.len() {
                        if durations[j] > 0 && st[j] <= *t && *t < st[j] + durations[j] as i128 {
                            u += usages[j] as i128;
                        }
                    }
                    if u > *capacity as i128 {
                        return false;
                    }
                }
                true
            }
            Con::Not(c) => !c.holds(a),
            Con::Half(c, l) => !l.holds(a) || c.holds(a),
            Con::Reif(c, l) => l.holds(a) == c.holds(a),
        }
    }

    /// The model variables the constraint mentions (sorted, unique).
    pub fn scope(&self) -> Vec<usize> {
        let mut s = vec![];
        self.collect_scope(&mut s);
        s.sort();
        s.dedup();
        s
    }
    fn collect_scope(&self, s: &mut Vec<usize>) {
        let mut vs = |x: &[View]| s.extend(x.iter().map(|v| v.var));
        match self {
            Con::LinLe(t, _) | Con::LinEq(t, _) | Con::LinNe(t, _) | Con::AllDiff(t) => vs(t),
            Con::BinEq(x, y) | Con::BinNe(x, y) | Con::BinLe(x, y) | Con::BinLt(x, y) | Con::Abs(x, y) => vs(&[*x, *y]),
            Con::Plus(x, y, z) | Con::Times(x, y, z) | Con::Div(x, y, z) => vs(&[*x, *y, *z]),
            Con::Max(xs, y) | Con::Min(xs, y) => {
                vs(xs);
                vs(&[*y]);
            }
            Con::Element(i, xs, e) => {
                vs(xs);
                vs(&[*i, *e]);
            }
            Con::BoolLe(_, b, _) => s.extend(b.iter().map(|l| l.var)),
            Con::BoolEq(_, b, x) => {
                s.extend(b.iter().map(|l| l.var));
                s.push(*x);
            }
            Con::LitClause(ls) | Con::LitConj(ls) => s.extend(ls.iter().map(|l| l.var)),
            Con::PredClause(ps) => s.extend(ps.iter().map(|p| p.var)),
            Con::ViewClause(ps) => s.extend(ps.iter().map(|(v, _, _)| v.var)),
            Con::Cumulative { starts, .. } => vs(starts),
            Con::Not(c) => c.collect_scope(s),
            Con::Half(c, l) | Con::Reif(c, l) => {
                c.collect_scope(s);
                s.push(l.var);
            }
        }
    }

    /// Whether any model variable occurs more than once inside the constraint.
    pub fn has_alias(&self) -> bool {
        let mut s = vec![];
        self.collect_scope(&mut s);
        let n = s.len();
        s.sort();
        s.dedup();
        s.len() != n
    }

    pub fn kind_name(&self) -> &'static str {
        match self {
            Con::LinLe(..) => "lin_le",
            Con::LinEq(..) => "lin_eq",
            Con::LinNe(..) => "lin_ne",
            Con::BinEq(..) => "bin_eq",
            Con::BinNe(..) => "bin_ne",
            Con::BinLe(..) => "bin_le",
            Con::BinLt(..) => "bin_lt",
            Con::Plus(..) => "plus",
            Con::Times(..) => "times",
            Con::Div(..) => "div",
            Con::Abs(..) => "abs",
            Con::Max(..) => "max",
            Con::Min(..) => "min",
            Con::Element(..) => "element",
            Con::AllDiff(..) => "all_different",
            Con::BoolLe(..) => "bool_lin_le",
            Con::BoolEq(..) => "bool_lin_eq",
            Con::LitClause(..) => "clause",
            Con::LitConj(..) => "conjunction",
            Con::PredClause(..) => "pred_clause",
            Con::ViewClause(..) => "view_clause",
            Con::Cumulative { .. } => "cumulative",
            Con::Not(..) => "not",
            Con::Half(..) => "half",
            Con::Reif(..) => "reif",
        }
    }

    /// The innermost (unwrapped) constraint.
    pub fn base(&self) -> &Con {
        match self {
            Con::Not(c) | Con::Half(c, _) | Con::Reif(c, _) => c.base(),
            c => c,
        }
    }

    /// Whether the kind implements `NegatableConstraint` in the library.
    pub fn negatable(&self) -> bool {
        matches!(
            self,
            Con::LinLe(..) | Con::LinEq(..) | Con::LinNe(..) | Con::BinEq(..) | Con::BinNe(..) | Con::BinLe(..) | Con::BinLt(..) | Con::LitClause(..) | Con::LitConj(..)
        )
    }

    pub fn to_json(&self) -> J {
        let views = |v: &[View]| J::Arr(v.iter().map(|x| x.to_json()).collect());
        let lits = |v: &[Lit]| J::Arr(v.iter().map(|x| x.to_json()).collect());
        let k = J::s(self.kind_name());
        match self {
            Con::LinLe(t, r) | Con::LinEq(t, r) | Con::LinNe(t, r) => J::obj(vec![("k", k), ("t", views(t)), ("rhs", J::i(*r))]),
            Con::BinEq(x, y) | Con::BinNe(x, y) | Con::BinLe(x, y) | Con::BinLt(x, y) | Con::Abs(x, y) => {
                J::obj(vec![("k", k), ("x", x.to_json()), ("y", y.to_json())])
            }
            Con::Plus(x, y, z) | Con::Times(x, y, z) | Con::Div(x, y, z) => {
                J::obj(vec![("k", k), ("x", x.to_json()), ("y", y.to_json()), ("z", z.to_json())])
            }
            Con::Max(xs, y) | Con::Min(xs, y) => J::obj(vec![("k", k), ("t", views(xs)), ("y", y.to_json())]),
            Con::Element(i, xs, e) => J::obj(vec![("k", k), ("i", i.to_json()), ("t", views(xs)), ("e", e.to_json())]),
            Con::AllDiff(xs) => J::obj(vec![("k", k), ("t", views(xs))]),
            Con::BoolLe(w, b, r) => J::obj(vec![("k", k), ("w", J::ints(w)), ("b", lits(b)), ("rhs", J::i(*r))]),
            Con::BoolEq(w, b, x) => J::obj(vec![("k", k), ("w", J::ints(w)), ("b", lits(b)), ("x", J::i(*x as i64))]),
            Con::LitClause(ls) | Con::LitConj(ls) => J::obj(vec![("k", k), ("b", lits(ls))]),
            Con::PredClause(ps) => J::obj(vec![("k", k), ("p", J::Arr(ps.iter().map(|p| p.to_json()).collect()))]),
            Con::ViewClause(ps) => J::obj(vec![("k", k), ("p", J::Arr(ps.iter().map(|(v, op, val)| J::Arr(vec![v.to_json(), J::s(op.name()), J::i(*val)])).collect()))]),
            Con::Cumulative { starts, durations, usages, capacity, options } => J::obj(vec![
                ("k", k),
                ("t", views(starts)),
                ("d", J::ints(durations)),
                ("u", J::ints(usages)),
                ("cap", J::i(*capacity)),
                ("opt", J::i(*options)),
            ]),
            Con::Not(c) => J::obj(vec![("k", k), ("c", c.to_json())]),
            Con::Half(c, l) | Con::Reif(c, l) => J::obj(vec![("k", k), ("c", c.to_json()), ("l", l.to_json())]),
        }
    }

    pub fn from_json(j: &J) -> Con {
        let views = |j: &J| -> Vec<View> { j.as_arr().iter().map(View::from_json).collect() };
        let lits = |j: &J| -> Vec<Lit> { j.as_arr().iter().map(Lit::from_json).collect() };
        let v = |key: &str| View::from_json(j.at(key));
        match j.at("k").as_str() {
            "lin_le" => Con::LinLe(views(j.at("t")), j.at("rhs").as_i32()),
            "lin_eq" => Con::LinEq(views(j.at("t")), j.at("rhs").as_i32()),
            "lin_ne" => Con::LinNe(views(j.at("t")), j.at("rhs").as_i32()),
            "bin_eq" => Con::BinEq(v("x"), v("y")),
            "bin_ne" => Con::BinNe(v("x"), v("y")),
            "bin_le" => Con::BinLe(v("x"), v("y")),
            "bin_lt" => Con::BinLt(v("x"), v("y")),
            "abs" => Con::Abs(v("x"), v("y")),
            "plus" => Con::Plus(v("x"), v("y"), v("z")),
            "times" => Con::Times(v("x"), v("y"), v("z")),
            "div" => Con::Div(v("x"), v("y"), v("z")),
            "max" => Con::Max(views(j.at("t")), v("y")),
            "min" => Con::Min(views(j.at("t")), v("y")),
            "element" => Con::Element(v("i"), views(j.at("t")), v("e")),
            "all_different" => Con::AllDiff(views(j.at("t"))),
            "bool_lin_le" => Con::BoolLe(j.at("w").as_ints(), lits(j.at("b")), j.at("rhs").as_i32()),
            "bool_lin_eq" => Con::BoolEq(j.at("w").as_ints(), lits(j.at("b")), j.at("x").as_usize()),
            "clause" => Con::LitClause(lits(j.at("b"))),
            "conjunction" => Con::LitConj(lits(j.at("b"))),
            "pred_clause" => Con::PredClause(j.at("p").as_arr().iter().map(Pred::from_json).collect()),
            "view_clause" => Con::ViewClause(
                j.at("p")
                    .as_arr()
                    .iter()
                    .map(|t| {
                        let a = t.as_arr();
                        (View::from_json(&a[0]), Pk::from_name(a[1].as_str()), a[2].as_i32())
                    })
                    .collect(),
            ),
            "cumulative" => Con::Cumulative {
                starts: views(j.at("t")),
                durations: j.at("d").as_ints(),
                usages: j.at("u").as_ints(),
                capacity: j.at("cap").as_i32(),
                options: j.at("opt").as_i64() as u32,
            },
            "not" => Con::Not(Box::new(Con::from_json(j.at("c")))),
            "half" => Con::Half(Box::new(Con::from_json(j.at("c"))), Lit::from_json(j.at("l"))),
            "reif" => Con::Reif(Box::new(Con::from_json(j.at("c"))), Lit::from_json(j.at("l"))),
            other => panic!("unknown constraint kind {other}"),
        }
    }
}

/// The reference model: declared variables and the accumulated constraints, with the exact
/// solution set maintained incrementally (new variable: cross product; new constraint: filter).
#[derive(Clone, Debug, Default)]
pub struct RefModel {
    pub vars: Vec<VarDecl>,
    pub cons: Vec<Con>,
    pub sols: Vec<Vec<i32>>,
    started: bool,
}

impl RefModel {
    pub fn new() -> RefModel {
        RefModel { vars: vec![], cons: vec![], sols: vec![vec![]], started: true }
    }
    pub fn add_var(&mut self, v: VarDecl) {
        if !self.started {
            self.sols = vec![vec![]];
            self.started = true;
        }
        let mut next = Vec::with_capacity(self.sols.len() * v.values.len());
        for s in &self.sols {
            if let Some(p) = &v.link {
                let mut t = Vec::with_capacity(s.len() + 1);
                t.extend_from_slice(s);
                t.push(p.holds(s) as i32);
                next.push(t);
                continue;
            }
            for val in &v.values {
                let mut t = Vec::with_capacity(s.len() + 1);
                t.extend_from_slice(s);
                t.push(*val);
                next.push(t);
            }
        }
        self.sols = next;
        self.vars.push(v);
    }
    pub fn add_con(&mut self, c: Con) {
        self.sols.retain(|s| c.holds(s));
        self.cons.push(c);
    }
    pub fn block(&mut self, sol: &[i32]) {
        // A blocking clause over the variables that existed when the solution was found
        let n = sol.len();
        self.sols.retain(|s| s[..n] != *sol);
    }
    /// Number of assignments over the declared domains.
    pub fn space(&self) -> u128 {
        self.vars.iter().map(|v| v.values.len() as u128).product()
    }
}

/// All assignments of the declared domains restricted to `scope`, as full-length vectors with
/// the first domain value in the other positions.
pub fn assignments_over(vars: &[VarDecl], scope: &[usize]) -> Vec<Vec<i32>> {
    let base: Vec<i32> = vars.iter().map(|v| v.values[0]).collect();
    let mut out = vec![base];
    for &i in scope {
        let mut next = Vec::with_capacity(out.len() * vars[i].values.len());
        for a in &out {
            for val in &vars[i].values {
                let mut b = a.clone();
                b[i] = *val;
                next.push(b);
            }
        }
        out = next;
    }
    out
}
