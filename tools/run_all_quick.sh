#!/bin/bash
# run_all_quick.sh [tier]: every property's check, one summary line each
cd "$(dirname "$0")/.."
T=${1:-quick}
for p in C01 C02 C03 C04 C05 C06 C07 C08 C09 C10 C11 C12 C13 C14 C15 C16 C17 C18 C19 C20; do
  ./check $p $T > /tmp/all_$p.out 2>&1; code=$?
  echo "$p exit=$code $(grep -E '^done' /tmp/all_$p.out | tail -1 | cut -c1-160)"
  grep -E "^VIOLATION|^violation|harness error" /tmp/all_$p.out | head -5
done
