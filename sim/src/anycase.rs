//! A case of any scenario kind; what the supervisor, the shrinker and replay files deal with.
use std::panic::{catch_unwind, AssertUnwindSafe};

use crate::exec::{Case, Outcome, Stats, Violation, LAST_PANIC};
use crate::json::J;
use crate::streams::DrcpCase;

#[derive(Clone, Debug, PartialEq)]
pub enum AnyCase {
    Lib(Case),
    Drcp(DrcpCase),
    Dimacs(crate::dimacs_stream::DimacsCase),
    Cli(crate::cli::CliCase),
    Proof(crate::proofcase::ProofCase),
    Deep(crate::deep::DeepCase),
}

fn guarded(prop_panics_are_violations: bool, f: impl FnOnce() -> Outcome) -> Outcome {
    LAST_PANIC.with(|p| *p.borrow_mut() = None);
    match catch_unwind(AssertUnwindSafe(f)) {
        Ok(o) => o,
        Err(_) => {
            let (loc, msg) = LAST_PANIC.with(|p| p.borrow_mut().take()).unwrap_or_default();
            let first = msg.lines().next().unwrap_or("").chars().take(160).collect::<String>();
            let mut stats = Stats::default();
            let violation = if prop_panics_are_violations {
                Some(Violation { class: format!("PANIC@{loc}"), msg: format!("panicked at {loc}: {first}"), op_index: 0 })
            } else {
                stats.aborted = 1;
                None
            };
            Outcome { violation, trace: 0, stats, polls_per_op: vec![], aborted: None }
        }
    }
}

impl AnyCase {
    pub fn to_json(&self) -> J {
        match self {
            AnyCase::Lib(c) => c.to_json(),
            AnyCase::Drcp(c) => c.to_json(),
            AnyCase::Dimacs(c) => c.to_json(),
            AnyCase::Cli(c) => c.to_json(),
            AnyCase::Proof(c) => c.to_json(),
            AnyCase::Deep(c) => c.to_json(),
        }
    }
    pub fn from_json(j: &J) -> AnyCase {
        match j.get("type").map(|t| t.as_str()) {
            Some("drcp") => AnyCase::Drcp(DrcpCase::from_json(j)),
            Some("dimacs") => AnyCase::Dimacs(crate::dimacs_stream::DimacsCase::from_json(j)),
            Some("cli") => AnyCase::Cli(crate::cli::CliCase::from_json(j)),
            Some("proof") => AnyCase::Proof(crate::proofcase::ProofCase::from_json(j)),
            Some("deep") => AnyCase::Deep(crate::deep::DeepCase::from_json(j)),
            _ => AnyCase::Lib(Case::from_json(j)),
        }
    }
    pub fn as_lib(&self) -> Option<&Case> {
        match self {
            AnyCase::Lib(c) => Some(c),
            AnyCase::Proof(c) => Some(&c.case),
            _ => None,
        }
    }
    /// Executes the case the way its scenario demands (also what replay and the shrinker call).
    pub fn check(&self) -> Outcome {
        match self {
            AnyCase::Lib(c) => crate::props::check_case(c),
            AnyCase::Drcp(c) => guarded(true, || c.run()),
            AnyCase::Dimacs(c) => guarded(true, || c.run()),
            AnyCase::Cli(c) => guarded(true, || c.run()),
            AnyCase::Proof(c) => guarded(true, || c.run()),
            AnyCase::Deep(c) => guarded(true, || c.run()),
        }
    }
    pub fn candidates(&self) -> Vec<AnyCase> {
        match self {
            AnyCase::Lib(c) => crate::shrink::candidates(c).into_iter().filter(crate::shrink::valid).map(AnyCase::Lib).collect(),
            AnyCase::Drcp(c) => c.candidates().into_iter().map(AnyCase::Drcp).collect(),
            AnyCase::Dimacs(c) => c.candidates().into_iter().map(AnyCase::Dimacs).collect(),
            AnyCase::Cli(c) => c.candidates().into_iter().map(AnyCase::Cli).collect(),
            AnyCase::Proof(c) => c.candidates().into_iter().map(AnyCase::Proof).collect(),
            AnyCase::Deep(c) => c.candidates().into_iter().map(AnyCase::Deep).collect(),
        }
    }
}
